// C19 — pruning never deletes data the node still needs.
// nodesim in prune mode: a real on-disk regtest node with -fastprune block files (64 KiB) is fed chains of 400-1100 blocks
// whose sizes vary from 250 bytes to 140 KB (so that files hold between one and ~200 blocks and file boundaries fall at
// seeded heights), interleaved with PruneBlockFilesManual(h), prune locks that are created / moved / deleted (index-style
// locks that lag the tip, locks at file boundaries, locks at heights 0..2), reorgs (depth 1-40) and invalidate+reconsider
// cycles that disconnect blocks (DisconnectTip moves locks back), re-delivery of pruned blocks (files with wildly mixed
// heights), forced/periodic flushes, PruneAndFlush() and clean restarts.
// Thorough tier additionally: (a) 1 run in 25, automatic pruning: 533-850 MiB of 0.6-1 MB blocks against -prune targets of
// 550-620 MiB, 64 KiB or 128 MiB block files, oracle after every block; (b) 1 run in 12, assumeutxo: the node loads regtest's
// height-200 UTXO snapshot and everything happens on the snapshot chainstate while blocks 1..200 arrive for background
// validation in order or out of order (the snapshot block itself first), completing or not.
//
// The model mirrors only WHICH BLOCK LIVES IN WHICH FILE (block index nFile/nDataPos read when the block is stored), where
// the prune locks are (own bookkeeping; BlockManager::m_prune_locks is private and never read) and how far background
// validation has got (longest delivered prefix) — not the pruning algorithm. After every operation the blocks directory is
// listed and the BLOCK_HAVE_DATA / BLOCK_HAVE_UNDO flags of every generated block are read; a file counts as deleted when
// blk/rev NNNNN.dat vanished or a block stored in it lost a flag.
#include "../core/sim.h"
#include "../nodesim/chainsim.h"

#include <chain.h>
#include <consensus/validation.h>
#include <crypto/sha256.h>
#include <hash.h>
#include <node/blockstorage.h>
#include <node/utxo_snapshot.h>
#include <pow.h>
#include <streams.h>
#include <undo.h>
#include <util/fs.h>
#include <util/time.h>
#include <validation.h>

#include <chrono>
#include <climits>
#include <filesystem>

using namespace sim;
using namespace nodesim;

namespace {

enum { K_MINE = 200, K_ALIGN, K_PRUNE, K_LOCK, K_UNLOCK, K_REORG, K_INVAL, K_RESTART, K_FLUSH, K_AUTOPRUNE, K_REDELIVER, K_BIG, K_BG };

constexpr int KEEP = 288;        //!< the statement's "last 288 blocks of the active tip"
constexpr int NSLOTS = 3;        //!< prune lock names lock0..lock2
constexpr int NO_LOCK = INT_MAX; //!< PruneLockInfo's default height_first: "nothing locked"
constexpr uint64_t MIB = 1024 * 1024;
// Slack used ONLY by the two checks that bound how MUCH automatic pruning removes (never by the safety clauses):
constexpr uint64_t AUTO_RESERVE = 17 * MIB;   //!< documented allocation reserve kept below the target (16 MiB blk chunk + 1 MiB rev chunk)
constexpr int LOCK_SLACK = 11;                //!< "callers should avoid assuming any particular buffer size": a lock may keep up to 10+1 blocks below it
constexpr uint64_t MIN_TARGET = 550 * MIB;    //!< documented minimum prune target
constexpr int SNAP_H = 200;                   //!< regtest assumeutxo height whose chain (test/util/mining.cpp CreateBlockChain) is a pure function of the chain params

const char* kSizeModes[] = {"small(0-3 txs)", "pad 0.3-6 KB", "pad 6-40 KB", "pad 66-140 KB", "mixed", "pad 20-65 KB"};

std::string Describe(const Op& op)
{
    char b[220];
    switch (op.kind) {
    case K_MINE: snprintf(b, sizeof b, "mine(n=%ld, seed=%ld, size=%s)", (long)op.arg(0), (long)op.arg(1), kSizeModes[op.mod(2, 6)]); break;
    case K_ALIGN: snprintf(b, sizeof b, "mine until tip-288 == last height of the next block file %+ld (size=%s)", (long)op.arg(0), kSizeModes[op.mod(2, 6)]); break;
    case K_PRUNE: {
        static const char* m[] = {"height#", "tip-288+delta", "tip", "last height of file#", "lowest lock-11+delta"};
        snprintf(b, sizeof b, "pruneblockchain(%s sel=%ld delta=%ld)", m[op.mod(0, 5)], (long)op.arg(1), (long)op.arg(2));
        break;
    }
    case K_LOCK: {
        static const char* m[] = {"tip-lag", "absolute#", "first height of file#", "INT_MAX (inactive)", "height 0..2"};
        snprintf(b, sizeof b, "UpdatePruneLock(lock%ld, %s val=%ld delta=%ld)", (long)op.mod(0, NSLOTS), m[op.mod(1, 5)], (long)op.arg(2), (long)op.arg(3));
        break;
    }
    case K_UNLOCK: snprintf(b, sizeof b, "DeletePruneLock(lock%ld)", (long)op.mod(0, NSLOTS)); break;
    case K_REORG: snprintf(b, sizeof b, "reorg(depth=%ld, extra=%ld, seed=%ld, size=%s)", (long)op.arg(0), (long)op.arg(1), (long)op.arg(2), kSizeModes[op.mod(3, 6)]); break;
    case K_INVAL: snprintf(b, sizeof b, "invalidateblock(tip-%ld) then reconsiderblock", (long)op.arg(0) - 1); break;
    case K_RESTART: snprintf(b, sizeof b, "restart(clean)"); break;
    case K_FLUSH: snprintf(b, sizeof b, "flush(mode=%ld)", (long)op.mod(0, 4)); break;
    case K_AUTOPRUNE: snprintf(b, sizeof b, "PruneAndFlush() [automatic prune check]"); break;
    case K_REDELIVER: snprintf(b, sizeof b, "re-deliver pruned block(s) (sel=%ld, n=%ld)", (long)op.arg(0), (long)op.arg(1)); break;
    case K_BIG: snprintf(b, sizeof b, "mine(n=%ld big blocks of %ld-%ld KB, seed=%ld)", (long)op.arg(0), (long)op.arg(2), (long)op.arg(3), (long)op.arg(1)); break;
    case K_BG: snprintf(b, sizeof b, "background download: %s (n=%ld, sel=%ld)", op.arg(1) ? "one not-yet-delivered block below the snapshot, out of order" : "next blocks below the snapshot in order", (long)op.arg(0), (long)op.arg(2)); break;
    default: snprintf(b, sizeof b, "?");
    }
    return b;
}

// ---------------------------------------------------------------------------------------------
// plan generation

void GenAuto(Rng& rng, Plan& p)
{
    p.knobs["auto"] = 1;
    p.knobs["target_mode"] = 2;
    const int64_t target = rng.range(550, 620);
    p.knobs["target_mib"] = target;
    p.knobs["fast_prune"] = rng.chance(2, 3);
    int64_t lo = rng.range(600, 850), hi = rng.range(lo, 990);
    // phase A: big blocks until the stored bytes are around the target (ends a little under it or well over it)
    // in half of the runs a low lock (height 2-9) holds everything back while usage climbs 100-250 MiB over the target; it is then released
    // and PruneAndFlush() has to bring usage back under the target in one go
    const bool held = rng.chance(1, 2);
    const int64_t want_kb = (target - 17 + (held ? rng.range(100, 250) : rng.range(-30, 120))) * 1024;
    int64_t have_kb = 0;
    while (have_kb < want_kb) {
        int n = (int)rng.range(8, 40);
        p.ops.push_back(Op(K_BIG, {n, (int64_t)(rng.next() >> 16), lo, hi}));
        if (held && have_kb == 0) p.ops.push_back(Op(K_LOCK, {NSLOTS - 1, 1, (int64_t)rng.range(2, 9), 0}));
        have_kb += n * (lo + hi) / 2;
        if (held) {
            if (rng.chance(1, 4)) p.ops.push_back(Op(K_AUTOPRUNE, {}));
            continue;
        }
        switch (rng.pick({50, 15, 15, 20, 4})) {
        case 1: p.ops.push_back(Op(K_MINE, {(int64_t)rng.range(1, 10), (int64_t)(rng.next() >> 16), (int64_t)rng.pick({1, 2, 3, 0, 1, 2})})); break;
        case 2: p.ops.push_back(Op(K_LOCK, {(int64_t)rng.below(NSLOTS), 0, (int64_t)rng.skewed(0, 400), 0})); break;
        case 3: p.ops.push_back(Op(K_AUTOPRUNE, {})); break;
        case 4: p.ops.push_back(Op(K_UNLOCK, {(int64_t)rng.below(NSLOTS)})); break;
        default: break;
        }
    }
    if (held) {
        p.ops.push_back(Op(K_AUTOPRUNE, {}));
        p.ops.push_back(rng.chance(1, 2) ? Op(K_UNLOCK, {NSLOTS - 1}) : Op(K_LOCK, {NSLOTS - 1, 0, (int64_t)rng.range(0, 200), 0}));
        p.ops.push_back(Op(K_AUTOPRUNE, {}));
    }
    // phase B: 300-380 smaller blocks so that the big ones leave the keep window one by one, with explicit automatic prune checks,
    // an index-style lock following the tip, a few reorgs, further bursts of big blocks, the odd manual prune and restart
    int small = (int)rng.range(300, 380);
    const int64_t lag = rng.chance(1, 2) ? rng.range(0, 60) : rng.range(60, 500);
    while (small > 0) {
        int n = (int)rng.range(4, 30);
        p.ops.push_back(Op(K_MINE, {n, (int64_t)(rng.next() >> 16), (int64_t)rng.pick({2, 3, 3, 0, 1, 2})}));
        small -= n;
        switch (rng.pick({20, 25, 20, 8, 15, 3, 3, 3, 3})) {
        case 1: p.ops.push_back(Op(K_AUTOPRUNE, {})); break;
        case 2: p.ops.push_back(Op(K_LOCK, {0, 0, lag, 0})); break;
        case 3: p.ops.push_back(Op(K_REORG, {(int64_t)rng.skewed(1, 20), (int64_t)rng.range(1, 2), (int64_t)(rng.next() >> 16), (int64_t)rng.below(3)})); break;
        case 4: p.ops.push_back(Op(K_BIG, {(int64_t)rng.range(3, 15), (int64_t)(rng.next() >> 16), lo, hi})); break;
        case 5: p.ops.push_back(Op(K_RESTART, {})); break;
        case 6: p.ops.push_back(Op(K_PRUNE, {(int64_t)rng.below(5), (int64_t)rng.below(1000), (int64_t)rng.range(-2, 2)})); break;
        case 7: p.ops.push_back(Op(K_UNLOCK, {(int64_t)rng.below(NSLOTS)})); break;
        case 8: p.ops.push_back(Op(K_LOCK, {(int64_t)rng.range(1, 2), 2, (int64_t)rng.below(1000), (int64_t)rng.range(-1, 12)})); break;
        default: break;
        }
    }
    p.ops.push_back(Op(K_AUTOPRUNE, {}));
}

Plan Gen(uint64_t seed, Tier tier)
{
    Rng rng(seed);
    Plan p;
    p.knobs["on_disk"] = 1;
    p.knobs["coins_cache_kb"] = rng.chance(1, 4) ? rng.range(16, 256) : 8192;
    p.knobs["batch_bytes"] = 16 << 20;
    if (tier == Tier::THOROUGH && rng.chance(1, 25)) {
        GenAuto(rng, p);
        return p;
    }
    p.knobs["auto"] = 0;
    // thorough tier, 1 run in 12: the node loads the height-200 regtest UTXO snapshot first; everything below happens on the snapshot chainstate
    // while blocks 1..200 arrive for background validation (K_BG), in order or not, possibly never completing
    const bool snap = tier == Tier::THOROUGH && rng.chance(1, 12);
    int bg_left = 0;
    if (snap) {
        p.knobs["snapshot"] = 1;
        p.knobs["pre_blocks"] = rng.chance(1, 3) ? 0 : rng.range(1, 150);
        bg_left = rng.chance(1, 5) ? 1000 : (int)rng.range(0, 199); // in-order background blocks the plan hands out (1000: validation completes)
    }
    bool first_bg = true;
    auto bg = [&] {
        if (!snap) return;
        if (first_bg) {
            // in half of the snapshot runs the snapshot block itself is the first thing the background download fetches: it lands in a block file
            // of the snapshot chainstate, among blocks above the snapshot, and has to survive there until every ancestor has been validated
            first_bg = false;
            if (rng.chance(1, 2)) {
                p.ops.push_back(Op(K_BG, {1, 1, 0}));
                return;
            }
        }
        if (rng.chance(1, 3)) p.ops.push_back(Op(K_BG, {1, 1, (int64_t)(rng.chance(1, 3) ? 0 : rng.below(1000))})); // sel 0 = the snapshot block itself
        else if (bg_left > 0) {
            int n = (int)std::min<int64_t>(bg_left, rng.range(1, 40));
            bg_left -= n;
            p.ops.push_back(Op(K_BG, {n, 0, 0}));
        }
    };
    p.knobs["target_mode"] = (int64_t)rng.pick({6, 2, 2}); // 0: prune_target=1 (brief), 1: PRUNE_TARGET_MANUAL (-prune=1 as init.cpp maps it), 2: explicit 550-700 MiB
    p.knobs["target_mib"] = rng.range(550, 700);
    p.knobs["fast_prune"] = rng.chance(15, 16); // 1/16: ordinary 128 MiB files - everything lives in blk00000, nothing may ever be deleted
    // how many blocks share a file: per-run size profile
    const int profile = (int)rng.below(5);
    auto size_mode = [&]() -> int64_t {
        switch (profile) {
        case 0: return (int64_t)rng.pick({60, 25, 5, 1, 9, 0});  // many blocks per file
        case 1: return (int64_t)rng.pick({15, 40, 25, 2, 15, 3});
        case 2: return (int64_t)rng.pick({5, 15, 45, 5, 15, 15}); // one to five per file
        case 3: return (int64_t)rng.pick({5, 10, 20, 25, 10, 30}); // mostly one per file
        default: return 4;
        }
    };
    auto r16 = [&] { return (int64_t)(rng.next() >> 16); };
    int mined = 0;
    auto mine = [&](int n, int64_t mode) { p.ops.push_back(Op(K_MINE, {n, r16(), mode})); mined += n; };
    // "lock, then a disconnect deeper than the lock buffer, then 300 more blocks": in half of the runs lock2 is set close to the tip early on,
    // the chain is rolled back 13-40 blocks below it (reorg or invalidateblock) and lock2 is then left alone, so that the files just above
    // the fork point leave the 288-block window while the moved-back lock is the only thing protecting them
    const bool scen = rng.chance(1, 2);
    const int free_slots = scen ? NSLOTS - 1 : NSLOTS;
    auto lock = [&] {
        int mode = (int)rng.pick({40, 20, 25, 4, 11});
        int64_t slot = mode == 0 && rng.chance(2, 3) ? 0 : (int64_t)rng.below(free_slots);
        p.ops.push_back(Op(K_LOCK, {slot, mode, (int64_t)(mode == 0 ? rng.skewed(0, 420) : rng.below(2000)), (int64_t)rng.range(-1, 12)}));
    };
    auto prune = [&] { p.ops.push_back(Op(K_PRUNE, {(int64_t)rng.pick({15, 25, 25, 25, 10}), (int64_t)rng.below(2000), (int64_t)rng.range(-3, 3)})); };
    auto reorg = [&] {
        int64_t depth = rng.chance(3, 4) ? rng.range(1, 6) : rng.range(7, 40);
        p.ops.push_back(Op(K_REORG, {depth, (int64_t)rng.range(1, 3), r16(), size_mode()}));
    };
    int total = (int)rng.range(400, tier == Tier::THOROUGH ? 1100 : 700);
    const int scen_at = (int)rng.range(30, 260);
    if (scen) total = std::max(total, scen_at + 360);
    bool scen_done = !scen;
    // phase 1: reach the point where something can become prunable (tip > 288)
    if (!snap && rng.chance(1, 6)) { mine(1, 0); mine(1, 3); } // a huge block 2: blk00000 holds only genesis and block 1
    const int phase1 = 289 + (int)rng.range(0, 60);
    while (mined < phase1) {
        mine((int)rng.range(10, 70), size_mode());
        if (snap && rng.chance(1, 2)) bg();
        if (!scen_done && mined >= scen_at) {
            scen_done = true;
            p.ops.push_back(Op(K_LOCK, {NSLOTS - 1, 0, (int64_t)rng.range(0, 3), 0}));
            if (rng.chance(1, 3)) mine((int)rng.range(1, 6), size_mode());
            if (rng.chance(2, 3)) p.ops.push_back(Op(K_REORG, {(int64_t)rng.range(13, 40), (int64_t)rng.range(1, 3), r16(), size_mode()}));
            else p.ops.push_back(Op(K_INVAL, {(int64_t)rng.range(13, 40)}));
            continue;
        }
        switch (rng.pick({40, 25, 12, 8, 8, 4, 3})) {
        case 1: lock(); break;
        case 2: reorg(); break;
        case 3: p.ops.push_back(Op(K_FLUSH, {(int64_t)rng.below(4)})); break;
        case 4: prune(); break; // nothing is old enough yet (or only just)
        case 5: p.ops.push_back(Op(K_INVAL, {(int64_t)rng.range(1, 40)})); break;
        case 6: p.ops.push_back(Op(K_AUTOPRUNE, {})); break;
        default: break;
        }
    }
    // phase 2: swarm-weighted mix
    std::vector<uint32_t> w(12, 0);
    w[0] = 20 + rng.below(20);  // mine
    w[1] = 4 + rng.below(10);   // align
    w[2] = 15 + rng.below(25);  // prune
    w[3] = 8 + rng.below(16);   // lock
    w[4] = rng.below(5);        // unlock
    w[5] = 3 + rng.below(10);   // reorg
    w[6] = rng.below(5);        // invalidate+reconsider
    w[7] = scen ? rng.below(2) : rng.below(5); // restart (forgets every lock)
    w[8] = rng.below(4);        // flush
    w[9] = rng.below(4);        // PruneAndFlush
    w[10] = rng.chance(1, 2) ? rng.below(8) : 0; // re-deliver pruned blocks
    if (snap) w[7] = 0;
    while (mined < total) {
        if (snap && rng.chance(1, 4)) bg();
        switch (rng.pick(w)) {
        case 0: mine((int)rng.skewed(1, 50), size_mode()); break;
        case 1: p.ops.push_back(Op(K_ALIGN, {(int64_t)rng.range(-1, 1), r16(), size_mode()})); mined += 5; break;
        case 2: prune(); break;
        case 3: lock(); break;
        case 4: p.ops.push_back(Op(K_UNLOCK, {(int64_t)rng.below(free_slots)})); break;
        case 5: reorg(); break;
        case 6: p.ops.push_back(Op(K_INVAL, {(int64_t)rng.range(1, 40)})); break;
        case 7: p.ops.push_back(Op(K_RESTART, {})); break;
        case 8: p.ops.push_back(Op(K_FLUSH, {(int64_t)rng.below(4)})); break;
        case 9: p.ops.push_back(Op(K_AUTOPRUNE, {})); break;
        case 10: p.ops.push_back(Op(K_REDELIVER, {(int64_t)rng.below(5000), (int64_t)rng.range(1, 4)})); break;
        }
    }
    if (rng.chance(1, 2)) p.ops.push_back(Op(K_PRUNE, {2, 0, 0}));
    return p;
}

// ---------------------------------------------------------------------------------------------

struct DirList {
    std::set<int> blk, rev;
};

// wall-clock accounting for tuning only (VERIF_TIMING=<file> appends one line per run; never enters the trace)
double g_t[6];
struct Timer {
    int k;
    std::chrono::steady_clock::time_point t0{std::chrono::steady_clock::now()};
    explicit Timer(int kk) : k(kk) {}
    ~Timer() { g_t[k] += std::chrono::duration<double>(std::chrono::steady_clock::now() - t0).count(); }
};

struct PruneSim {
    Ctx& ctx;
    ChainSim cs;
    const bool auto_mode;
    uint64_t target{MIN_TARGET}; //!< effective automatic-prune target in bytes (max(550 MiB, configured))

    // ---- the model: which block lives in which file, and where the locks are ----
    struct Loc {
        int file{-1};
        unsigned pos{0};
        bool data{false};
        bool undo{false};
        bool ever{false}; //!< was stored at least once
    };
    std::vector<Loc> loc;                 //!< per RefChain block index
    std::vector<char> big;                //!< body dropped after delivery
    struct Lock { bool present{false}; int set{NO_LOCK}; int moved{NO_LOCK}; };
    Lock locks[NSLOTS];                   //!< set = height given to UpdatePruneLock; moved = lowest fork height of a disconnect since then
    DirList dir;                          //!< listing of the blocks directory after the previous operation
    std::map<int, uint64_t> fsize;        //!< nSize+nUndoSize per file after the previous operation (only used to bound automatic pruning)
    int tip{0};                           //!< RefChain index of the active tip (model's view, updated from the node's tip hash)
    int op_tmax{0};                       //!< highest tip height seen during the current operation
    int locks_at_op_start[NSLOTS];        //!< height protected by each lock when the operation began (NO_LOCK = none)
    int64_t start_time{0};
    uint64_t files_deleted_total{0};
    bool pruned_before_restart{false};
    size_t observe_count{0};
    // assumeutxo: the snapshot chainstate is active; blocks 1..SNAP_H arrive for background validation
    const bool snap_mode;
    bool snap_active{false};
    std::vector<int> base;                //!< RefChain index of base-chain block at height h (base[0] = genesis)
    std::vector<char> base_delivered;     //!< per height
    int max_tip_seen{0};
    /** Height up to which background validation has got: the longest prefix 1..k of delivered blocks (the background chainstate connects whatever is
     *  available in order; cross-checked against the historical chainstate's tip in Observe). */
    int BgHeight() const
    {
        int k = 0;
        while (k + 1 <= SNAP_H && base_delivered[k + 1]) ++k;
        return k;
    }
    size_t autoprune_count{0};

    explicit PruneSim(Ctx& c) : ctx(c), cs(c, ChainSimConfig{}), auto_mode(c.knob("auto", 0) != 0), snap_mode(c.knob("snapshot", 0) != 0) {}

    SimNode& N() { return *cs.node; }
    const RefChain& R() { return *cs.ref; }
    int TipH() { return R().blocks[tip].height; }

    /** Height a lock obliges the node to keep from (safety view): an INT_MAX lock obliges nothing. */
    static int LockFloor(const Lock& l) { return !l.present || l.set == NO_LOCK ? NO_LOCK : std::min(l.set, l.moved); }
    /** Height a lock MAY keep from (used only to decide that a file is surely eligible): DisconnectTip also pulls INT_MAX locks down. */
    static int LockMaybe(const Lock& l) { return !l.present ? NO_LOCK : std::min(l.set, l.moved); }
    int MinLockFloor()
    {
        int m = NO_LOCK;
        for (auto& l : locks) m = std::min(m, LockFloor(l));
        return m;
    }

    DirList ListDir()
    {
        DirList d;
        std::error_code ec;
        for (auto it = std::filesystem::directory_iterator(N().opts.dir + "/blocks", ec); !ec && it != std::filesystem::directory_iterator(); it.increment(ec)) {
            std::string n = it->path().filename().string();
            if (n.size() == 12 && n.compare(8, 4, ".dat") == 0 && (n.compare(0, 3, "blk") == 0 || n.compare(0, 3, "rev") == 0)) {
                int num = atoi(n.substr(3, 5).c_str());
                (n[0] == 'b' ? d.blk : d.rev).insert(num);
            }
        }
        return d;
    }

    struct FileRange { int minh{INT_MAX}, maxh{-1}, nblocks{0}; bool contiguous{true}; };
    std::map<int, FileRange> Files()
    {
        std::map<int, FileRange> f;
        std::map<int, std::set<int>> hs;
        for (size_t i = 0; i < loc.size(); ++i) {
            if (!loc[i].data && !loc[i].undo) continue;
            FileRange& r = f[loc[i].file];
            int h = R().blocks[i].height;
            r.minh = std::min(r.minh, h);
            r.maxh = std::max(r.maxh, h);
            ++r.nblocks;
            hs[loc[i].file].insert(h);
        }
        for (auto& [n, r] : f) r.contiguous = (int)hs[n].size() == r.maxh - r.minh + 1;
        return f;
    }

    void BeginOp()
    {
        op_tmax = TipH();
        for (int s = 0; s < NSLOTS; ++s) locks_at_op_start[s] = LockFloor(locks[s]);
    }

    /** The node's tip may have moved: a tip that is not a descendant of the previous one means blocks above the fork point were
     *  disconnected, which obliges every lock above the fork point to move back to it ("reorgs that move locks back"). */
    void NoteTip()
    {
        int t = cs.TipIdx();
        if (t < 0) ctx.failf("sim-tip-unknown", "active tip is not a generated block");
        if (t != tip) {
            int fork = R().ForkPoint(tip, t);
            if (fork != tip) {
                int fh = R().blocks[fork].height;
                ctx.probe("disconnect");
                if (TipH() - fh > 6) ctx.probe("disconnect_deeper_than_6");
                for (auto& l : locks) {
                    if (!l.present) continue;
                    int before = std::min(l.set, l.moved);
                    if (before > fh) {
                        l.moved = fh;
                        if (l.set != NO_LOCK) {
                            ctx.probe("lock_moved_back_by_disconnect");
                            if (before - fh > LOCK_SLACK) ctx.probe("lock_moved_back_more_than_11");
                        }
                    }
                }
            }
            tip = t;
            op_tmax = std::max(op_tmax, TipH());
        }
    }

    void Dlv(int idx)
    {
        {
            Timer t(1);
            cs.Deliver(idx, true);
        }
        if (big[idx]) cs.ref->blocks[idx].block.reset();
        NoteTip();
        if (auto_mode) Observe("block delivery", false, false);
    }

    // ---- block production ----
    int Push(int idx)
    {
        loc.resize(R().blocks.size());
        big.resize(R().blocks.size(), 0);
        return idx;
    }

    /** A coinbase-only block padded with one OP_RETURN output, built with a single pass over the padding (the witness merkle root
     *  of a coinbase-only block is the all-zero coinbase leaf, so the commitment is SHA256d(0^32 || 0^32)). */
    int MinePadded(int parent, size_t pad, uint64_t seed, bool is_big = false)
    {
        Timer t(0);
        const RefBlock& P = R().blocks[parent];
        const int height = P.height + 1;
        Rng r(mix64(seed, 0x70616464));
        auto b = std::make_shared<CBlock>();
        b->nVersion = 0x20000000;
        b->hashPrevBlock = P.hash;
        b->nTime = (uint32_t)std::max<int64_t>(R().MTP(parent) + 1, P.time + r.range(1, 600));
        b->nBits = UintToArith256(N().params->GetConsensus().powLimit).GetCompact();
        CMutableTransaction cb;
        cb.vin.resize(1);
        cb.vin[0].prevout.SetNull();
        cb.vin[0].scriptSig = CScript() << height << OP_0 << (int64_t)(++cs.cb_nonce);
        cb.vin[0].scriptWitness.stack = {std::vector<unsigned char>(32, 0)};
        cb.vout.resize(3);
        cb.vout[0] = CTxOut(RefSubsidy(height, R().halving_interval), Keys().Spk((SK)r.below((int)SK::NKINDS), (int)r.below(N_KEYS)));
        {
            // OP_RETURN OP_PUSHDATA4 <pad zero bytes>, written in place (copies of a 1 MB script are what a big-block run would spend its time on)
            CScript& s = cb.vout[1].scriptPubKey;
            s.resize(6 + pad);
            s[0] = OP_RETURN;
            s[1] = OP_PUSHDATA4;
            s[2] = (unsigned char)(pad & 0xff);
            s[3] = (unsigned char)((pad >> 8) & 0xff);
            s[4] = (unsigned char)((pad >> 16) & 0xff);
            s[5] = (unsigned char)((pad >> 24) & 0xff);
            cb.vout[1].nValue = 0;
        }
        unsigned char zeros[64] = {0};
        uint256 commit;
        CHash256().Write(zeros).Finalize(commit);
        std::vector<unsigned char> spk{OP_RETURN, 0x24, 0xaa, 0x21, 0xa9, 0xed};
        spk.insert(spk.end(), commit.begin(), commit.end());
        cb.vout[2] = CTxOut(0, CScript(spk.begin(), spk.end()));
        b->vtx.push_back(MakeTransactionRef(std::move(cb)));
        b->hashMerkleRoot = b->vtx[0]->GetHash().ToUint256();
        Grind(*b, N().params->GetConsensus());
        BlockLabel label;
        label.defect = "none";
        int idx = Push(cs.AddBlock(b, parent, label));
        big[idx] = is_big;
        return idx;
    }

    int MineOne(int parent, int mode, Rng& r)
    {
        if (mode == 4) mode = (int)r.pick({40, 28, 22, 4, 0, 6});
        size_t pad = 0;
        switch (mode) {
        case 1: pad = (size_t)r.range(300, 6000); break;
        case 2: pad = (size_t)r.range(6000, 40000); break;
        case 3: pad = (size_t)r.range(66000, 140000); break;
        case 5: pad = (size_t)r.range(20000, 65000); break;
        default: break;
        }
        if (pad == 0) {
            Timer t(0);
            return Push(cs.MineOn(parent, (int)r.below(4), r.next(), D_NONE, B_NONE, 0));
        }
        return MinePadded(parent, pad, r.next());
    }

    // ---- the oracle ----
    /** Compare the node with the model after an operation. `manual`: the operation was PruneBlockFilesManual (the bounds on how much
     *  AUTOMATIC pruning removes do not apply); `deep`: read every stored block and undo record back. */
    void Observe(const char* what, bool manual, bool deep)
    {
        Timer t(deep ? 3 : 2);
        LOCK(cs_main);
        node::BlockManager& bm = N().cm().m_blockman;
        const int tiph = TipH();
        op_tmax = std::max(op_tmax, tiph);
        const DirList d1 = ListDir();
        const size_t nb = R().blocks.size();
        loc.resize(nb);
        big.resize(nb, 0);
        std::vector<const CBlockIndex*> pis(nb, nullptr);
        std::set<int> deleted;
        for (size_t i = 0; i < nb; ++i) {
            const CBlockIndex* pi = bm.LookupBlockIndex(R().blocks[i].hash);
            pis[i] = pi;
            const bool have = pi && (pi->nStatus & BLOCK_HAVE_DATA), haveu = pi && (pi->nStatus & BLOCK_HAVE_UNDO);
            const Loc& L = loc[i];
            if ((L.data && !have) || (L.undo && !haveu)) deleted.insert(L.file);
            if (L.data && have && (pi->nFile != L.file || pi->nDataPos != L.pos))
                ctx.failf("sim-block-relocated", "%s: block #%zu (h=%d) moved from blk%05d@%u to blk%05d@%u without being pruned", what, i, R().blocks[i].height, L.file, L.pos, pi->nFile, pi->nDataPos);
        }
        for (int f : dir.blk)
            if (!d1.blk.count(f)) deleted.insert(f);
        for (int f : dir.rev)
            if (!d1.rev.count(f)) deleted.insert(f);
        // ---- clauses about each deleted file ----
        uint64_t max_deleted_size = 0;
        bool deleted_with_blocks = false;
        std::string dels;
        for (int f : deleted) {
            dels += " " + std::to_string(f);
            max_deleted_size = std::max(max_deleted_size, fsize.count(f) ? fsize[f] : 0);
            int nblocks = 0;
            for (size_t i = 0; i < nb; ++i) {
                const Loc& L = loc[i];
                if (L.file != f || (!L.data && !L.undo)) continue;
                ++nblocks;
                const int h = R().blocks[i].height;
                // (1) within the last 288 blocks of the active tip
                if (h > op_tmax - KEEP)
                    // (chains shorter than 288 blocks - everything is inside the keep window - get a class of their own, see the lock clause)
                    ctx.failf(op_tmax < KEEP ? "pruned-block-within-288-of-tip-of-chain-shorter-than-288" : "pruned-block-within-288-of-tip", "%s: blk/rev%05d was deleted although it held block #%zu at height %d; tip height %d, so heights above %d must be kept", what, f, i, h, op_tmax, op_tmax - KEEP);
                // (2) at or above an active prune lock
                for (int s = 0; s < NSLOTS; ++s)
                    if (locks_at_op_start[s] != NO_LOCK && h >= locks_at_op_start[s])
                        // (locks at height 0 or 1 get a class of their own: a property of the input, so that shrinking and the known-findings
                        // lookup can tell this corner of the lock-position space from every other lock position)
                        ctx.failf(locks_at_op_start[s] <= 1 ? "pruned-block-at-or-above-prune-lock-of-height-0-or-1" : "pruned-block-at-or-above-prune-lock", "%s: blk/rev%05d was deleted although it held block #%zu at height %d and prune lock lock%d keeps everything from height %d (tip height %d)", what, f, i, h, s, locks_at_op_start[s], op_tmax);
                // (2b) not yet validated by background validation of the snapshot
                if (snap_active && h <= SNAP_H && h > BgHeight())
                    ctx.failf("pruned-block-not-yet-background-validated", "%s: blk/rev%05d was deleted although it held block #%zu at height %d; the snapshot base is %d and background validation has only reached %d (tip height %d)", what, f, i,
                              h, SNAP_H, BgHeight(), op_tmax);
                // (3) flags follow the file
                const bool have = pis[i] && (pis[i]->nStatus & BLOCK_HAVE_DATA), haveu = pis[i] && (pis[i]->nStatus & BLOCK_HAVE_UNDO);
                if (have || haveu)
                    ctx.failf("have-data-flag-after-file-deleted", "%s: blk/rev%05d is gone but block #%zu (h=%d) stored in it still carries %s", what, f, i, h, have ? "BLOCK_HAVE_DATA" : "BLOCK_HAVE_UNDO");
                CBlock tmp;
                if (pis[i] && bm.ReadBlock(tmp, *pis[i])) ctx.failf("have-data-flag-after-file-deleted", "%s: block #%zu (h=%d) of deleted file %05d still reads back", what, i, h, f);
            }
            // (4) really gone from disk, blk and rev in lock-step
            if (d1.blk.count(f) || d1.rev.count(f))
                ctx.failf("pruned-file-still-on-disk", "%s: blocks stored in file %05d lost their data/undo flags but %s%05d.dat is still in the blocks directory", what, f, d1.blk.count(f) ? "blk" : "rev", f);
            if (nblocks) {
                deleted_with_blocks = true;
                ++files_deleted_total;
                ctx.probe("file_deleted");
                ctx.nontrivial = true;
            } else {
                ctx.probe("empty_file_removed");
            }
        }
        if (!deleted.empty() && files_deleted_total) pruned_before_restart = true;
        const uint64_t usage = bm.CalculateCurrentUsage();
        if (snap_active) {
            const Chainstate* hist = N().cm().HistoricalChainstate();
            const int real_bg = hist ? hist->m_chain.Height() : SNAP_H;
            if (real_bg != BgHeight()) ctx.failf("sim-background-height", "%s: the model says background validation reached %d, the node's historical chainstate is at %d", what, BgHeight(), real_bg);
            if (N().cs().m_chain.Height() < SNAP_H) ctx.failf("sim-snapshot-chainstate", "%s: active chainstate below the snapshot base", what);
        }
        if (deleted_with_blocks && !manual) {
            // Automatic pruning "removes eligible files until usage is back under the target": it must not have removed a file when
            // usage (plus the allocation reserve) was already under the target before that file went. Order-free form: adding the
            // largest removed file back must reach the target.
            ctx.probe("auto_prune_deleted");
            if (!N().cm().IsInitialBlockDownload() && usage + max_deleted_size + AUTO_RESERVE < target)
                ctx.failf("auto-prune-deleted-below-target", "%s: files%s were deleted outside a manual prune; usage is now %lu bytes, the largest deleted file had %lu bytes, target %lu", what, dels.c_str(), (unsigned long)usage,
                          (unsigned long)max_deleted_size, (unsigned long)target);
        }
        // ---- bring the model up to date ----
        size_t npruned = 0;
        for (size_t i = 0; i < nb; ++i) {
            Loc& L = loc[i];
            const CBlockIndex* pi = pis[i];
            const bool have = pi && (pi->nStatus & BLOCK_HAVE_DATA), haveu = pi && (pi->nStatus & BLOCK_HAVE_UNDO);
            if ((L.data || L.undo) && deleted.count(L.file)) L = Loc{-1, 0, false, false, true};
            if (!L.data && have) {
                if (L.ever) ctx.probe("pruned_block_stored_again");
                L.file = pi->nFile;
                L.pos = pi->nDataPos;
                L.data = true;
                L.ever = true;
            }
            if (L.data && !L.undo && haveu) L.undo = true;
            if (L.ever && !L.data) ++npruned;
        }
        // ---- statement (1) read directly: the last 288 blocks of the active chain have block and undo data ----
        // (only blocks the node was given, and only heights that were inside the window ever since the highest tip so far)
        max_tip_seen = std::max(max_tip_seen, op_tmax);
        for (int i = tip, n = 0; i >= 0 && n < KEEP; i = R().blocks[i].parent, ++n) {
            const CBlockIndex* pi = pis[i];
            if (!loc[i].ever || R().blocks[i].height <= max_tip_seen - KEEP) continue;
            if (snap_active && R().blocks[i].height <= SNAP_H) continue; // downloaded for background validation: no undo data until connected there
            if (!pi || !(pi->nStatus & BLOCK_HAVE_DATA) || (R().blocks[i].height > 0 && !(pi->nStatus & BLOCK_HAVE_UNDO)))
                ctx.failf("block-in-keep-window-without-data", "%s: active-chain block at height %d (tip %d) has no %s", what, R().blocks[i].height, tiph, pi && (pi->nStatus & BLOCK_HAVE_DATA) ? "undo data" : "block data");
        }
        // ---- "keep BLOCK_HAVE_DATA iff the file still exists and reads back" ----
        ++observe_count;
        auto near_deleted = [&](int f) {
            for (int d : deleted)
                if (std::abs(d - f) <= 1) return true;
            return false;
        };
        for (size_t i = 0; i < nb; ++i) {
            const Loc& L = loc[i];
            if (!L.data) continue;
            if (!d1.blk.count(L.file)) ctx.failf("flagged-block-file-missing", "%s: block #%zu (h=%d) carries BLOCK_HAVE_DATA but blk%05d.dat is not in the blocks directory", what, i, R().blocks[i].height, L.file);
            if (L.undo && !d1.rev.count(L.file)) ctx.failf("flagged-block-file-missing", "%s: block #%zu (h=%d) carries BLOCK_HAVE_UNDO but rev%05d.dat is not in the blocks directory", what, i, R().blocks[i].height, L.file);
            if (!deep) continue;
            if (big[i] && (i % 32) != (size_t)(tiph % 32)) continue; // sample the 1 MB blocks
            // after a manual prune: every block in a file next to a deleted one, a rotating quarter of the rest; everything at restart / end
            if (manual && !near_deleted(L.file) && (i + observe_count) % 4 != 0) continue;
            CBlock blk;
            if (!bm.ReadBlock(blk, *pis[i]) || blk.GetHash() != R().blocks[i].hash)
                ctx.failf("flagged-block-unreadable", "%s: block #%zu (h=%d) carries BLOCK_HAVE_DATA (blk%05d@%u) but does not read back", what, i, R().blocks[i].height, L.file, L.pos);
            if (L.undo) {
                CBlockUndo undo;
                if (!bm.ReadBlockUndo(undo, *pis[i])) ctx.failf("flagged-undo-unreadable", "%s: block #%zu (h=%d) carries BLOCK_HAVE_UNDO (rev%05d) but its undo data does not read back", what, i, R().blocks[i].height, L.file);
            }
        }
        if (deep) ctx.probe("readback_all_flagged_blocks");
        // ---- bookkeeping for the next operation ----
        dir = d1;
        std::map<int, FileRange> files = Files();
        fsize.clear();
        for (auto& [f, r] : files) {
            const auto* fi = bm.GetBlockFileInfo(f);
            fsize[f] = (uint64_t)fi->nSize + fi->nUndoSize;
        }
        if (!deleted.empty() || deep) ctx.evf("  observe[%s]: deleted{%s } tip=%d files=%zu pruned_blocks=%zu usage=%lu", what, dels.c_str(), tiph, files.size(), npruned, (unsigned long)usage);
        int lowest = INT_MAX;
        for (auto& [f, r] : files) lowest = std::min(lowest, r.minh);
        ctx.fingerprint(mix64(mix64((uint64_t)tiph * 1000003 + files.size(), npruned), mix64((uint64_t)MinLockFloor(), (uint64_t)lowest)));
    }

    /** After PruneAndFlush(): "removes eligible files until usage is back under the target or no eligible file remains". */
    void CheckAutoComplete(const char* what)
    {
        LOCK(cs_main);
        const uint64_t usage = N().cm().m_blockman.CalculateCurrentUsage();
        const int tiph = TipH();
        if (usage < target) { ctx.probe(auto_mode ? "auto_prune_usage_under_target" : "auto_prune_noop_far_under_target"); return; }
        ctx.probe("auto_prune_usage_still_over_target");
        if (tiph <= (int)N().params->PruneAfterHeight()) return;
        int maybe = NO_LOCK;
        for (auto& l : locks) maybe = std::min(maybe, LockMaybe(l));
        const int limit = std::min(tiph - KEEP, maybe == NO_LOCK ? INT_MAX : maybe - LOCK_SLACK);
        for (auto& [f, r] : Files()) {
            if (r.maxh <= limit && limit >= 1)
                ctx.failf("auto-prune-left-eligible-file-above-target", "%s: usage %lu >= target %lu, yet file %05d (heights %d-%d) is below tip-288=%d and below every lock (lowest %d)", what, (unsigned long)usage, (unsigned long)target,
                          f, r.minh, r.maxh, tiph - KEEP, maybe);
        }
        ctx.probe("auto_prune_no_eligible_file_remains");
    }

    // ---- assumeutxo ----
    /** The chain behind regtest's height-200 assumeutxo entry (src/test/util/mining.cpp CreateBlockChain, re-stated here): coinbase-only
     *  version-4 blocks paying P2WSH(OP_TRUE), coinbase nLockTime = height-1, nTime = genesis time + height. */
    void SetupSnapshot()
    {
        const CChainParams& params = *N().params;
        const Consensus::Params& cp = params.GetConsensus();
        CScript wsh_true;
        {
            const unsigned char op_true = OP_TRUE;
            uint256 h;
            CSHA256().Write(&op_true, 1).Finalize(h.begin());
            wsh_true = CScript() << OP_0 << std::vector<unsigned char>(h.begin(), h.end());
        }
        base.assign(SNAP_H + 1, 0);
        base_delivered.assign(SNAP_H + 2, 0);
        uint32_t time = params.GenesisBlock().nTime;
        std::vector<CBlockHeader> headers;
        for (int h = 1; h <= SNAP_H; ++h) {
            auto b = std::make_shared<CBlock>();
            CMutableTransaction cb;
            cb.nLockTime = (uint32_t)(h - 1);
            cb.vin.resize(1);
            cb.vin[0].prevout.SetNull();
            cb.vin[0].nSequence = CTxIn::MAX_SEQUENCE_NONFINAL;
            cb.vin[0].scriptSig = CScript() << (int64_t)h << OP_0;
            cb.vout.resize(1);
            cb.vout[0].scriptPubKey = wsh_true;
            cb.vout[0].nValue = RefSubsidy(h, R().halving_interval);
            b->vtx = {MakeTransactionRef(std::move(cb))};
            b->nVersion = 4;
            b->hashPrevBlock = R().blocks[base[h - 1]].hash;
            b->hashMerkleRoot = b->vtx[0]->GetHash().ToUint256();
            b->nTime = ++time;
            b->nBits = params.GenesisBlock().nBits;
            b->nNonce = 0;
            while (!CheckProofOfWork(b->GetHash(), b->nBits, cp)) ++b->nNonce;
            BlockLabel label;
            label.defect = "none";
            base[h] = Push(cs.AddBlock(b, base[h - 1], label));
            if (R().blocks[base[h]].verdict != Verdict::VALID) ctx.failf("sim-snapshot-chain", "base block %d is not valid per the model: %s", h, R().blocks[base[h]].reason.c_str());
            headers.push_back(static_cast<const CBlockHeader&>(*b));
        }
        const auto au = params.AssumeutxoForHeight(SNAP_H);
        if (!au || au->blockhash != R().blocks[base[SNAP_H]].hash) ctx.failf("sim-snapshot-chain", "block %d of the rebuilt chain is not regtest's assumeutxo block", SNAP_H);
        BlockValidationState st;
        if (!N().ProcessHeaders(headers, st)) ctx.failf("sim-snapshot-chain", "headers rejected: %s", st.ToString().c_str());
        // part of the chain is already there when the snapshot is loaded
        const int pre = (int)std::clamp<int64_t>(ctx.knob("pre_blocks", 0), 0, SNAP_H - 10);
        BeginOp();
        for (int h = 1; h <= pre; ++h) {
            Dlv(base[h]);
            base_delivered[h] = 1;
        }
        Observe("blocks before the snapshot", false, false);
        // the snapshot file: metadata, then one coin per coinbase
        const fs::path path = fs::PathFromString(N().opts.dir) / "utxo_snapshot.dat";
        {
            AutoFile out{fsbridge::fopen(path, "wb")};
            out << node::SnapshotMetadata{params.MessageStart(), R().blocks[base[SNAP_H]].hash, (uint64_t)SNAP_H};
            for (int h = 1; h <= SNAP_H; ++h) {
                const CTransaction& cbtx = *R().blocks[base[h]].block->vtx[0];
                out << cbtx.GetHash();
                WriteCompactSize(out, 1);
                WriteCompactSize(out, 0);
                out << Coin(cbtx.vout[0], h, /*fCoinBaseIn=*/true);
            }
            if (out.fclose() != 0) ctx.failf("sim-snapshot-file", "cannot write the snapshot file");
        }
        {
            AutoFile in{fsbridge::fopen(path, "rb")};
            node::SnapshotMetadata meta{params.MessageStart()};
            in >> meta;
            auto res = N().cm().ActivateSnapshot(in, meta, /*in_memory=*/false);
            if (!res) ctx.failf("sim-snapshot-activation", "ActivateSnapshot failed: %s", util::ErrorString(res).original.c_str());
        }
        snap_active = true;
        BeginOp();
        NoteTipAfterSnapshot();
        Observe("snapshot activated", false, false);
        ctx.probe("snapshot_activated");
        ctx.evf("snapshot at %d activated, background at %d", SNAP_H, BgHeight());
    }

    /** Activating the snapshot moves the active tip to the snapshot base without disconnecting anything. */
    void NoteTipAfterSnapshot()
    {
        int t = cs.TipIdx();
        if (t != base[SNAP_H]) ctx.failf("sim-snapshot-activation", "active tip is not the snapshot base after activation");
        tip = t;
        op_tmax = TipH();
    }

    // ---- operations ----
    void DoMine(int n, uint64_t seed, int mode)
    {
        Rng r(mix64(seed, 0x6d696e));
        for (int i = 0; i < n; ++i) Dlv(MineOne(tip, mode, r));
    }

    void Exec(const Op& op)
    {
        BeginOp();
        const std::string desc = Describe(op);
        bool manual = false, deep = false;
        switch (op.kind) {
        case K_MINE: {
            int n = (int)std::clamp<int64_t>(op.arg(0), 1, 80);
            DoMine(n, (uint64_t)op.arg(1), (int)op.mod(2, 6));
            ctx.evf("mine n=%d -> tip h=%d", n, TipH());
            break;
        }
        case K_BIG: {
            int n = (int)std::clamp<int64_t>(op.arg(0), 1, 40);
            int64_t lo = std::clamp<int64_t>(op.arg(2), 70, 990), hi = std::clamp<int64_t>(op.arg(3), lo, 990);
            Rng r(mix64((uint64_t)op.arg(1), 0x424947));
            for (int i = 0; i < n; ++i) Dlv(MinePadded(tip, (size_t)r.range(lo, hi) * 1000, r.next(), /*is_big=*/true));
            ctx.evf("mine big n=%d -> tip h=%d", n, TipH());
            ctx.probe("big_blocks", n);
            break;
        }
        case K_ALIGN: {
            // mine k blocks so that tip-288 lands exactly on (or one off) the last height of a block file
            const int want_delta = (int)std::clamp<int64_t>(op.arg(0), -1, 1);
            int best = 0;
            for (auto& [f, r] : Files()) {
                int k = r.maxh + want_delta + KEEP - TipH();
                if (k >= 1 && k <= 60 && (best == 0 || k < best)) best = k;
            }
            if (best) {
                DoMine(best, (uint64_t)op.arg(1), (int)op.mod(2, 6));
                ctx.probe("aligned_tip_minus_288_with_file_end");
            }
            ctx.evf("align k=%d -> tip h=%d", best, TipH());
            break;
        }
        case K_PRUNE: {
            const int tiph = TipH();
            if (tiph < (int)N().params->PruneAfterHeight()) { ctx.evf("prune: chain too short"); break; } // pruneblockchain's own precondition
            int h = 1;
            auto files = Files();
            switch (op.mod(0, 5)) {
            case 0: h = 1 + (int)op.mod(1, tiph); break;
            case 1: h = tiph - KEEP + (int)std::clamp<int64_t>(op.arg(2), -3, 3); break;
            case 2: h = tiph; break;
            case 3: {
                auto it = files.begin();
                std::advance(it, op.mod(1, files.size()));
                h = it->second.maxh + (int)std::clamp<int64_t>(op.arg(2), -1, 1);
                break;
            }
            case 4: {
                int m = MinLockFloor();
                h = m == NO_LOCK ? tiph - KEEP : m - LOCK_SLACK + (int)std::clamp<int64_t>(op.arg(2), -3, 3);
                break;
            }
            }
            h = std::clamp(h, 1, tiph);
            {
                LOCK(cs_main);
                PruneBlockFilesManual(N().cs(), h);
            }
            manual = deep = true;
            ctx.probe("manual_prune");
            if (h > tiph - KEEP) ctx.probe("manual_height_inside_keep_window");
            if (h == tiph - KEEP || h == tiph - KEEP + 1) ctx.probe("manual_height_at_keep_boundary");
            if (MinLockFloor() != NO_LOCK && h >= MinLockFloor()) ctx.probe("manual_height_at_or_above_lock");
            ctx.evf("prune h=%d tip=%d minlock=%d", h, tiph, MinLockFloor());
            break;
        }
        case K_LOCK: {
            const int s = (int)op.mod(0, NSLOTS), tiph = TipH();
            int h = 0;
            switch (op.mod(1, 5)) {
            case 0: h = tiph - (int)op.mod(2, 421); break;
            case 1: h = (int)op.mod(2, tiph + 2); break;
            case 2: {
                auto files = Files();
                auto it = files.begin();
                std::advance(it, op.mod(2, files.size()));
                h = it->second.minh + (int)std::clamp<int64_t>(op.arg(3), -1, 12);
                break;
            }
            case 3: h = NO_LOCK; break;
            case 4: h = (int)op.mod(2, 3); break;
            }
            if (h != NO_LOCK) h = std::max(h, 0);
            {
                LOCK(cs_main);
                N().cm().m_blockman.UpdatePruneLock("lock" + std::to_string(s), node::PruneLockInfo{h});
            }
            locks[s] = Lock{true, h, NO_LOCK};
            ctx.probe(h == NO_LOCK ? "lock_set_inactive" : h <= 2 ? "lock_set_at_height_0_to_2" : h < tiph - KEEP ? "lock_set_below_keep_window" : "lock_set_inside_keep_window");
            ctx.evf("lock%d = %d (tip %d)", s, h, tiph);
            break;
        }
        case K_UNLOCK: {
            const int s = (int)op.mod(0, NSLOTS);
            bool was;
            {
                LOCK(cs_main);
                was = N().cm().m_blockman.DeletePruneLock("lock" + std::to_string(s));
            }
            if (was != locks[s].present) ctx.failf("sim-lock-bookkeeping", "DeletePruneLock(lock%d) returned %d, model had present=%d", s, was, locks[s].present);
            locks[s] = Lock{};
            ctx.evf("unlock%d was=%d", s, was);
            break;
        }
        case K_REORG: {
            int depth = (int)std::clamp<int64_t>(op.arg(0), 1, 40);
            const int tiph = TipH();
            if (tiph < 2) break;
            if (snap_active) depth = std::min(depth, tiph - SNAP_H); // nothing below the snapshot base can be disconnected
            if (depth < 1) break;
            int fork = R().Ancestor(tip, std::max(0, tiph - depth));
            int len = tiph - R().blocks[fork].height + (int)std::clamp<int64_t>(op.arg(1), 1, 3);
            Rng r(mix64((uint64_t)op.arg(2), 0x72656f));
            std::vector<int> branch;
            int parent = fork;
            for (int i = 0; i < len; ++i) {
                parent = MineOne(parent, (int)op.mod(3, 6), r);
                branch.push_back(parent);
            }
            for (int b : branch) Dlv(b);
            ctx.probe("reorg");
            if (depth > 6) ctx.probe("reorg_deeper_than_6");
            ctx.evf("reorg depth=%d len=%d -> tip h=%d", depth, len, TipH());
            break;
        }
        case K_INVAL: {
            int depth = (int)std::clamp<int64_t>(op.arg(0), 1, 40);
            const int tiph = TipH();
            if (snap_active) depth = std::min(depth, tiph - SNAP_H);
            if (depth < 1 || tiph - depth < 1) break;
            int victim = R().Ancestor(tip, tiph - depth + 1);
            CBlockIndex* pi = WITH_LOCK(cs_main, return N().cm().m_blockman.LookupBlockIndex(R().blocks[victim].hash));
            if (!pi) break;
            BlockValidationState st;
            N().cs().InvalidateBlock(st, pi);
            BlockValidationState st2;
            N().cs().ActivateBestChain(st2);
            N().DrainSignals();
            NoteTip();
            const int low = TipH();
            {
                LOCK(cs_main);
                N().cs().ResetBlockFailureFlags(pi);
                N().cm().RecalculateBestHeader();
            }
            BlockValidationState st3;
            N().cs().ActivateBestChain(st3);
            N().DrainSignals();
            NoteTip();
            ctx.probe("invalidate_reconsider");
            ctx.evf("invalidate h=%d -> tip %d, reconsider -> tip %d", tiph - depth + 1, low, TipH());
            break;
        }
        case K_RESTART: {
            N().Stop(/*clean=*/true);
            if (!N().Start()) ctx.failf("restart-failed", "clean restart of the pruned node failed: %s", N().last_error.c_str());
            for (auto& l : locks) l = Lock{}; // prune locks live in memory only
            NoteTip();
            deep = true;
            ctx.probe("clean_restart");
            if (pruned_before_restart) ctx.probe("clean_restart_after_prune");
            ctx.evf("restart -> tip h=%d", TipH());
            break;
        }
        case K_FLUSH: {
            LOCK(cs_main);
            BlockValidationState st;
            switch (op.mod(0, 4)) {
            case 0: N().cs().ForceFlushStateToDisk(true); break;
            case 1: N().cs().ForceFlushStateToDisk(false); break;
            case 2: N().cs().FlushStateToDisk(st, FlushStateMode::PERIODIC); break;
            default: N().cs().FlushStateToDisk(st, FlushStateMode::IF_NEEDED); break;
            }
            ctx.evf("flush %d", (int)op.mod(0, 4));
            break;
        }
        case K_AUTOPRUNE: {
            {
                // as init.cpp does at start-up: every chainstate
                LOCK(cs_main);
                if (Chainstate* h = N().cm().HistoricalChainstate()) h->PruneAndFlush();
                N().cs().PruneAndFlush();
            }
            Observe(desc.c_str(), false, auto_mode && (autoprune_count++ % 4) == 0);
            CheckAutoComplete(desc.c_str());
            ctx.probe("prune_and_flush");
            ctx.evf("autoprune tip=%d", TipH());
            return;
        }
        case K_REDELIVER: {
            std::vector<int> cand;
            for (size_t i = 1; i < loc.size(); ++i)
                if (loc[i].ever && !loc[i].data && R().blocks[i].block) cand.push_back((int)i);
            int n = (int)std::clamp<int64_t>(op.arg(1), 1, 4);
            for (int k = 0; k < n && !cand.empty(); ++k) {
                size_t j = (size_t)((uint64_t)(op.arg(0) + 7919 * k) % cand.size());
                Dlv(cand[j]);
                cand.erase(cand.begin() + j);
                ctx.probe("redelivered_pruned_block");
            }
            ctx.evf("redeliver n=%d", n);
            break;
        }
        case K_BG: {
            if (!snap_active) break;
            int done = 0;
            if (op.arg(1)) {
                // one block out of order: sel 0 = the snapshot block itself, else the sel-th not yet delivered height counted from the top
                std::vector<int> missing;
                for (int h = SNAP_H; h >= 1; --h)
                    if (!base_delivered[h]) missing.push_back(h);
                if (!missing.empty()) {
                    int h = missing[op.mod(2, missing.size())];
                    if (h > BgHeight() + 1) ctx.probe("background_block_out_of_order");
                    if (h == SNAP_H && BgHeight() < SNAP_H - 1) ctx.probe("snapshot_block_downloaded_before_its_ancestors");
                    Dlv(base[h]);
                    base_delivered[h] = 1;
                    ++done;
                }
            } else {
                int n = (int)std::clamp<int64_t>(op.arg(0), 1, 40);
                for (int h = 1; h <= SNAP_H && done < n; ++h) {
                    if (base_delivered[h]) continue;
                    Dlv(base[h]);
                    base_delivered[h] = 1;
                    ++done;
                }
            }
            if (BgHeight() == SNAP_H) ctx.probe("background_validation_completed");
            ctx.evf("bg delivered=%d -> background height %d, tip h=%d", done, BgHeight(), TipH());
            break;
        }
        default: return;
        }
        if (N().Fatal()) ctx.failf("node-fatal-error", "%s", N().notifications->fatal_errors.empty() ? N().notifications->flush_errors[0].c_str() : N().notifications->fatal_errors[0].c_str());
        Observe(desc.c_str(), manual, deep);
        if (manual) AfterManualPrune();
    }

    /** Reach probes: did the three rules actually bind? (evidence only) */
    void AfterManualPrune()
    {
        const int limit = TipH() - KEEP, ml = MinLockFloor();
        for (auto& [f, r] : Files()) {
            if (r.minh <= limit && r.maxh > limit) ctx.probe("file_straddling_tip_minus_288_kept");
            if (r.maxh == limit + 1) ctx.probe("file_ending_one_above_tip_minus_288_kept");
            if (ml != NO_LOCK && r.maxh <= limit && r.maxh >= ml) ctx.probe("file_kept_only_because_of_lock");
            if (!r.contiguous) ctx.probe("file_with_mixed_heights");
            if (r.nblocks == 1) ctx.probe("file_with_single_block");
        }
        if (!loc[0].data) ctx.probe("genesis_pruned");
    }

    void Run()
    {
        const int tm = (int)ctx.knob("target_mode", 0);
        const uint64_t cfg_target = tm == 0 ? 1 : tm == 1 ? node::BlockManager::PRUNE_TARGET_MANUAL : (uint64_t)std::clamp<int64_t>(ctx.knob("target_mib", 550), 1, 100000) * MIB;
        target = std::max<uint64_t>(MIN_TARGET, cfg_target);
        // what every bitcoind does at start (kernel::Context); the harness glue leaves the portable C++ SHA256 in place, which makes
        // hashing the padded coinbases the dominant cost of a run. Same digests, only faster.
        static bool once = (SHA256AutoDetect(), true);
        (void)once;
        cs.tweak_opts = [&](NodeOpts& o) {
            o.coins_db_in_memory = false;
            o.block_tree_db_in_memory = false;
            o.prune_target = cfg_target;
            o.fast_prune = ctx.knob("fast_prune", 1) != 0;
            o.regtest.fastprune = true; // nPruneAfterHeight = 100
            o.check_level = 3;
            o.check_blocks = 6;
        };
        {
            Timer t(5);
            cs.StartNode();
        }
        loc.assign(1, Loc{});
        big.assign(1, 0);
        tip = 0;
        start_time = cs.now;
        BeginOp();
        Observe("start", false, false);
        if (!loc[0].data) ctx.failf("sim-genesis-not-stored", "genesis block has no data after start");
        if (snap_mode) SetupSnapshot();
        for (const Op& op : ctx.plan.ops) Exec(op);
        BeginOp();
        Observe("end of run", false, true);
        ctx.probe("files_deleted_total", files_deleted_total);
        ctx.sim_ms = (uint64_t)(cs.now - start_time) * 1000;
        {
            Timer t(4);
            N().Stop(true);
        }
        if (FILE* tf = getenv("VERIF_TIMING") ? fopen(getenv("VERIF_TIMING"), "a") : nullptr) fprintf(tf, "timing: build %.2f deliver %.2f observe %.2f deep-observe %.2f stop %.2f start %.2f s; blocks=%zu\n", g_t[0], g_t[1], g_t[2], g_t[3], g_t[4], g_t[5], R().blocks.size()), fclose(tf);
    }
};

void Run(Ctx& ctx)
{
    PruneSim s(ctx);
    s.Run();
}

Engine MakeEngine()
{
    Engine e;
    e.prop = "C19";
    e.name = "nodesim/prune";
    e.level = "exploration";
    e.gen = Gen;
    e.run = Run;
    e.describe = Describe;
    e.chunk = 1;
    e.quick_runs = 320;
    e.thorough_runs = 4000;
    e.quick_budget_s = 50;
    e.thorough_budget_s = 900;
    e.run_timeout_s = 300;
    e.rule = "each run = one on-disk regtest node in prune mode (-fastprune 64 KiB block files in 15/16 of the runs; prune target 1 / PRUNE_TARGET_MANUAL / 550-700 MiB) fed a seeded chain of 400-1100 blocks whose "
             "sizes follow a per-run profile (250 B ... 140 KB, i.e. 1-200 blocks per file; in 1/6 of the runs a huge block 2 leaves only genesis+block 1 in blk00000), interleaved with 40-120 operations: "
             "PruneBlockFilesManual(h) with h = any height / tip-288+-3 / tip / last height of a file +-1 / lowest lock-11+-3; UpdatePruneLock on 3 names (tip-lag, absolute, first height of a file -1..+12, "
             "INT_MAX, 0..2); DeletePruneLock; 'align' (mine until tip-288 is exactly the last height of a file, +-1); reorgs of depth 1-40 and invalidateblock+reconsiderblock of depth 1-40 (DisconnectTip "
             "moves locks back; in half of the runs a lock is set at the tip, the chain rolled back 13-40 blocks and 300+ blocks mined on top); re-delivery of pruned blocks; flush modes; PruneAndFlush(); clean restarts. "
             "Thorough tier: 1 run in 25 = automatic pruning (533-850 MiB of 0.6-1 MB blocks, then 300-380 smaller blocks, -prune targets 550-620 MiB, 64 KiB or 128 MiB files, in half of them a low lock holds "
             "everything back until usage is 100-250 MiB over the target), oracle evaluated after every block; 1 run in 12 = assumeutxo (regtest height-200 snapshot loaded after 0-150 blocks of ordinary sync; blocks 1..200 "
             "delivered for background validation in order / out of order / snapshot block first; validation completes in ~1/5 of them). non-trivial = at least one block file holding generated blocks was deleted; "
             "distinct = distinct (tip height, #files with data, #pruned blocks, lowest lock, lowest stored height) fingerprints of the model after an operation (first 64 per run).";
    e.real_components = {"Chainstate::FlushStateToDisk / GetPruneRange / DisconnectTip prune-lock handling / PruneAndFlush / PruneBlockFilesManual (validation.cpp)",
                         "BlockManager::FindFilesToPrune, FindFilesToPruneManual, PruneOneBlockFile, UnlinkPrunedFiles, ScanAndUnlinkAlreadyPrunedFiles, UpdatePruneLock, DeletePruneLock, FindNextBlockPos, BlockfileTypeForHeight, flat block/undo files (node/blockstorage.cpp)",
                         "block index LevelDB, coins LevelDB, LoadChainstate/VerifyLoadedChainstate on restart", "ProcessNewBlock / ActivateBestChain / InvalidateBlock / ResetBlockFailureFlags",
                         "ChainstateManager::ActivateSnapshot, snapshot + historical chainstates, MaybeValidateSnapshot (thorough tier)"};
    e.stub_components = {"peers (blocks handed to ProcessNewBlock)", "wall clock (SetMockTime)", "indexes (prune locks are set by the harness the way BaseIndex::SetBestBlockIndex does: UpdatePruneLock(name, {height}))", "disk = tmpfs scratch directory",
                         "UTXO snapshot file written by the harness (metadata + one coin per coinbase of the 200-block chain)"};
    e.assumptions = {"a prune lock with height_first = L obliges the node to keep every block (any branch) at height >= L (PruneLockInfo: 'height of earliest block that should be kept'); after blocks above a fork point F < L were disconnected the lock obliges from F (DisconnectTip contract); locks vanish at restart; an INT_MAX lock obliges nothing",
                     "the 288-block, lock and background-validation rules are evaluated over every generated block stored in the deleted file (active chain or stale branch), against the highest tip height during, the lock positions at the start of, and the background height at the end of the operation in which the file vanished",
                     "background validation has reached height k = every block 1..k was handed to the node (cross-checked against the historical chainstate's tip)",
                     "usage = BlockManager::CalculateCurrentUsage(); the two bounds on how MUCH automatic pruning removes allow the documented 17 MiB allocation reserve and 11 blocks of lock buffer in the permissive direction only; 'usage back under the target' is checked right after PruneAndFlush()",
                     "violations whose trigger is a lock at height 0/1 or a chain shorter than 288 blocks carry their own class names (pruned-block-at-or-above-prune-lock-of-height-0-or-1, pruned-block-within-288-of-tip-of-chain-shorter-than-288)",
                     "automatic pruning is only reachable above 550 MiB of block data (thorough tier); 1-3.9 MB blocks of the design are 0.6-1 MB here (coinbase padding is non-witness data, weight limit)"};
    e.expected_probes = {"manual_prune", "file_deleted", "manual_height_inside_keep_window", "manual_height_at_keep_boundary", "manual_height_at_or_above_lock", "aligned_tip_minus_288_with_file_end", "file_straddling_tip_minus_288_kept",
                         "file_ending_one_above_tip_minus_288_kept", "file_kept_only_because_of_lock", "lock_moved_back_by_disconnect", "lock_moved_back_more_than_11", "reorg", "reorg_deeper_than_6", "invalidate_reconsider",
                         "clean_restart_after_prune", "redelivered_pruned_block", "pruned_block_stored_again", "file_with_mixed_heights", "file_with_single_block", "lock_set_at_height_0_to_2", "lock_set_below_keep_window", "genesis_pruned",
                         "prune_and_flush", "readback_all_flagged_blocks"};
    // (thorough-tier only probes, not listed because the quick tier cannot reach them: auto_prune_deleted, auto_prune_usage_under_target,
    //  auto_prune_no_eligible_file_remains, big_blocks, snapshot_activated, background_block_out_of_order,
    //  snapshot_block_downloaded_before_its_ancestors, background_validation_completed)
    return e;
}
Engine g_engine = MakeEngine();
SIM_REGISTER_ENGINE(g_engine);

} // namespace
