// C20 — a UTXO snapshot is used only if it matches its commitment.
// nodesim + stream faults. A source node reproduces one of the two deterministic regtest chains whose assumeutxo
// commitments are in m_assumeutxo_data (height 110: the TestChain100Setup chain, mined through the real BlockAssembler
// path; height 200: the coinbase-only chain of src/test/util/mining.cpp CreateBlockChain) and dumps snapshot files with
// the real dump code (CreateUTXOSnapshot) at base-1, base and base+1. A target node that knows the headers then gets
// hundreds of activation attempts (loadtxoutset path: SnapshotMetadata parse + ChainstateManager::ActivateSnapshot) of
// mutated files read through an fopencookie stream (short reads, injected EOF, injected EIO). An independent
// decoder/encoder of the snapshot format (this file) decides what each mutated byte string denotes.
#include "../core/sim.h"
#include "../nodesim/simnode.h"

#include <chain.h>
#include <chainparams.h>
#include <coins.h>
#include <consensus/amount.h>
#include <consensus/merkle.h>
#include <consensus/validation.h>
#include <crypto/sha256.h>
#include <kernel/coinstats.h>
#include <key.h>
#include <node/context.h>
#include <node/miner.h>
#include <node/mining_types.h>
#include <node/utxo_snapshot.h>
#include <pow.h>
#include <primitives/block.h>
#include <primitives/transaction.h>
#include <pubkey.h>
#include <rpc/blockchain.h>
#include <script/interpreter.h>
#include <script/script.h>
#include <streams.h>
#include <txdb.h>
#include <txmempool.h>
#include <univalue.h>
#include <util/fs.h>
#include <util/time.h>
#include <validation.h>

#include <array>
#include <cerrno>
#include <filesystem>
#include <map>
#include <optional>
#include <set>

using namespace sim;
using namespace nodesim;

namespace {

using Bytes = std::vector<uint8_t>;
using Txid32 = std::array<uint8_t, 32>;

// ------------------------------------------------------------------------------------------------------------------
// The regtest commitments, copied from the property's anchor (src/kernel/chainparams.cpp, CRegTestParams::m_assumeutxo_data).
// The oracle uses THIS table (not the node's) to decide what "a known assumeutxo block" and "the committed value" are.
struct Commitment {
    int height;
    const char* blockhash;
    const char* hash_serialized;
};
const Commitment kCommit[3] = {
    {110, "135eec25a6fb277884e5824e7aa7d052c4868161c99a5122170b5266f86c273d", "86e9a1205b418b16dde3a18a78c730e30137e28466bda5dbf6b33ab8fc05447c"},
    {200, "385901ccbd69dff6bbd00065d01fb8a9e464dede7cfe0372443884f9b1dcf6b9", "17dcc016d188d16068907cdeb38b75691a118d43053b8cd6a25969419381d13a"},
    {299, "0c552ced4721c249a389eb9b08cb8da261cd46f0e7b5f9d064d48f3113406853", "106b2c56233e378a824cf0d5ff2be42ed32c72f1605c9be288d00942908a40ac"},
};
uint256 U256(const char* hex) { return *uint256::FromHex(hex); }
Txid32 ToArr(const uint256& h)
{
    Txid32 a;
    memcpy(a.data(), h.begin(), 32);
    return a;
}
uint256 FromArr(const Txid32& a)
{
    uint256 h;
    memcpy(h.begin(), a.data(), 32);
    return h;
}

// ------------------------------------------------------------------------------------------------------------------
// Independent codec of the snapshot file format.
//   metadata : magic "utxo\xff" | u16 version (2) | 4 bytes network magic | 32 bytes base block hash | u64 coins count
//   then, until `coins count` coins were read: 32 bytes txid | CompactSize n | n x ( CompactSize vout | VARINT code = height*2+coinbase
//   | VARINT compressed amount | script: VARINT k; k<6: special form with 20/32 payload bytes; else k-6 raw bytes (k-6 > 10000: skipped, script := OP_RETURN) )
//   nothing may follow the last coin.
constexpr uint64_t kMaxSize = 0x02000000;   // CompactSize range limit of the format
constexpr uint64_t kMaxScript = 10000;
constexpr uint8_t kMagic[5] = {'u', 't', 'x', 'o', 0xff};
constexpr uint8_t kRegtestNet[4] = {0xfa, 0xbf, 0xb5, 0xda};

struct CoinVal {
    uint32_t height{0};
    bool coinbase{false};
    uint64_t amount{0};
    Bytes script;
    bool operator==(const CoinVal& o) const { return height == o.height && coinbase == o.coinbase && amount == o.amount && script == o.script; }
};
using OutKey = std::pair<Txid32, uint32_t>;
using CoinSet = std::map<OutKey, CoinVal>;

struct SCoin {
    uint64_t vout{0};
    CoinVal v;
    bool raw_script{false};   //!< encoder: never use a special form
    int force_special{-1};    //!< encoder: write special form N with `payload` regardless of the script
    Bytes payload;
};
struct SGroup {
    Txid32 txid{};
    std::vector<SCoin> coins;
    int64_t declared_delta{0}; //!< encoder: written group count = coins.size() + delta
};
struct SFile {
    uint8_t magic[5];
    uint16_t version{2};
    uint8_t net[4];
    Txid32 base{};
    uint64_t count{0};
    std::vector<SGroup> groups;
    size_t NCoins() const
    {
        size_t n = 0;
        for (auto& g : groups) n += g.coins.size();
        return n;
    }
    SCoin& Coin(size_t i, size_t* gi = nullptr)
    {
        for (size_t g = 0; g < groups.size(); ++g) {
            if (i < groups[g].coins.size()) { if (gi) *gi = g; return groups[g].coins[i]; }
            i -= groups[g].coins.size();
        }
        abort();
    }
};

enum FieldClass { F_MAGIC, F_VERSION, F_NET, F_BASE, F_COUNT, F_TXID, F_GROUPN, F_VOUT, F_CODE, F_AMOUNT, F_SCRIPTHDR, F_SCRIPTBODY, N_FIELDS };
const char* kFieldName[] = {"magic", "version", "netmagic", "basehash", "coinscount", "txid", "groupcount", "vout", "code", "amount", "scripthdr", "scriptbody"};
struct Field {
    size_t off, len;
    int cls;
    int coin; //!< global coin index (first coin of the group for txid/groupcount), -1 for metadata
};

uint64_t MyCompressAmount(uint64_t n)
{
    if (n == 0) return 0;
    int e = 0;
    while (n % 10 == 0 && e < 9) { n /= 10; ++e; }
    if (e < 9) {
        uint64_t d = n % 10;
        n /= 10;
        return 1 + 10 * (9 * n + d - 1) + e;
    }
    return 1 + 10 * (n - 1) + 9;
}
uint64_t MyDecompressAmount(uint64_t x)
{
    if (x == 0) return 0;
    --x;
    int e = (int)(x % 10);
    x /= 10;
    uint64_t n;
    if (e < 9) {
        uint64_t d = x % 9 + 1;
        x /= 9;
        n = x * 10 + d;
    } else {
        n = x + 1;
    }
    for (; e > 0; --e) n *= 10; // wraps modulo 2^64 like any 64-bit implementation of the format
    return n;
}
void PutCompact(Bytes& o, uint64_t v)
{
    if (v < 253) o.push_back((uint8_t)v);
    else if (v <= 0xffff) { o.push_back(253); for (int i = 0; i < 2; ++i) o.push_back((uint8_t)(v >> (8 * i))); }
    else if (v <= 0xffffffffULL) { o.push_back(254); for (int i = 0; i < 4; ++i) o.push_back((uint8_t)(v >> (8 * i))); }
    else { o.push_back(255); for (int i = 0; i < 8; ++i) o.push_back((uint8_t)(v >> (8 * i))); }
}
void PutVarInt(Bytes& o, uint64_t n)
{
    uint8_t tmp[11];
    int len = 0;
    for (;;) {
        tmp[len] = (uint8_t)((n & 0x7f) | (len ? 0x80 : 0x00));
        if (n <= 0x7f) break;
        n = (n >> 7) - 1;
        ++len;
    }
    do { o.push_back(tmp[len]); } while (len--);
}

bool IsP2PKH(const Bytes& s) { return s.size() == 25 && s[0] == 0x76 && s[1] == 0xa9 && s[2] == 20 && s[23] == 0x88 && s[24] == 0xac; }
bool IsP2SH(const Bytes& s) { return s.size() == 23 && s[0] == 0xa9 && s[1] == 20 && s[22] == 0x87; }
bool IsP2PKc(const Bytes& s) { return s.size() == 35 && s[0] == 33 && s[34] == 0xac && (s[1] == 2 || s[1] == 3); }
bool IsP2PKu(const Bytes& s)
{
    if (!(s.size() == 67 && s[0] == 65 && s[66] == 0xac && s[1] == 4)) return false;
    CPubKey pk{std::span<const uint8_t>{s.data() + 1, 65}};
    return pk.IsFullyValid();
}

void EncodeScript(Bytes& o, const SCoin& c, size_t& hdr_len)
{
    const Bytes& s = c.v.script;
    size_t start = o.size();
    if (c.force_special >= 0) {
        PutVarInt(o, (uint64_t)c.force_special);
        hdr_len = o.size() - start;
        o.insert(o.end(), c.payload.begin(), c.payload.end());
        return;
    }
    if (!c.raw_script) {
        if (IsP2PKH(s)) { o.push_back(0); hdr_len = 1; o.insert(o.end(), s.begin() + 3, s.begin() + 23); return; }
        if (IsP2SH(s)) { o.push_back(1); hdr_len = 1; o.insert(o.end(), s.begin() + 2, s.begin() + 22); return; }
        if (IsP2PKc(s)) { o.push_back(s[1]); hdr_len = 1; o.insert(o.end(), s.begin() + 2, s.begin() + 34); return; }
        if (IsP2PKu(s)) { o.push_back((uint8_t)(4 | (s[65] & 1))); hdr_len = 1; o.insert(o.end(), s.begin() + 2, s.begin() + 34); return; }
    }
    PutVarInt(o, s.size() + 6);
    hdr_len = o.size() - start;
    o.insert(o.end(), s.begin(), s.end());
}

Bytes Encode(const SFile& f, std::vector<Field>* fields = nullptr)
{
    Bytes o;
    auto mark = [&](size_t off, int cls, int coin) { if (fields && o.size() > off) fields->push_back({off, o.size() - off, cls, coin}); };
    size_t p = o.size();
    o.insert(o.end(), f.magic, f.magic + 5); mark(p, F_MAGIC, -1);
    p = o.size(); o.push_back((uint8_t)f.version); o.push_back((uint8_t)(f.version >> 8)); mark(p, F_VERSION, -1);
    p = o.size(); o.insert(o.end(), f.net, f.net + 4); mark(p, F_NET, -1);
    p = o.size(); o.insert(o.end(), f.base.begin(), f.base.end()); mark(p, F_BASE, -1);
    p = o.size(); for (int i = 0; i < 8; ++i) o.push_back((uint8_t)(f.count >> (8 * i))); mark(p, F_COUNT, -1);
    int ci = 0;
    for (auto& g : f.groups) {
        p = o.size(); o.insert(o.end(), g.txid.begin(), g.txid.end()); mark(p, F_TXID, ci);
        p = o.size(); PutCompact(o, (uint64_t)((int64_t)g.coins.size() + g.declared_delta)); mark(p, F_GROUPN, ci);
        for (auto& c : g.coins) {
            p = o.size(); PutCompact(o, c.vout); mark(p, F_VOUT, ci);
            p = o.size(); PutVarInt(o, (uint64_t)c.v.height * 2 + (c.v.coinbase ? 1 : 0)); mark(p, F_CODE, ci);
            p = o.size(); PutVarInt(o, MyCompressAmount(c.v.amount)); mark(p, F_AMOUNT, ci);
            p = o.size();
            size_t hdr = 0;
            EncodeScript(o, c, hdr);
            if (fields) {
                fields->push_back({p, hdr, F_SCRIPTHDR, ci});
                if (o.size() > p + hdr) fields->push_back({p + hdr, o.size() - p - hdr, F_SCRIPTBODY, ci});
            }
            ++ci;
        }
    }
    return o;
}

struct Reader {
    const Bytes& b;
    size_t p{0};
    bool get(uint8_t* dst, size_t n)
    {
        if (b.size() - p < n) return false;
        memcpy(dst, b.data() + p, n);
        p += n;
        return true;
    }
    bool skip(uint64_t n)
    {
        if (b.size() - p < n) return false;
        p += (size_t)n;
        return true;
    }
    bool le(uint64_t& v, int bytes)
    {
        uint8_t t[8];
        if (!get(t, bytes)) return false;
        v = 0;
        for (int i = 0; i < bytes; ++i) v |= (uint64_t)t[i] << (8 * i);
        return true;
    }
};
enum class PE { OK, TRUNCATED, NONCANONICAL, TOO_LARGE, VARINT_OVERFLOW, BAD_MAGIC, BAD_VERSION, BAD_NET, GROUP_EXCEEDS_COUNT, TRAILING };
const char* PEName(PE e)
{
    static const char* n[] = {"ok", "truncated", "noncanonical-compactsize", "compactsize-too-large", "varint-overflow", "bad-magic", "bad-version", "bad-network-magic", "group-exceeds-coins-count", "trailing-bytes"};
    return n[(int)e];
}
PE GetCompact(Reader& r, uint64_t& v)
{
    uint8_t c;
    if (!r.get(&c, 1)) return PE::TRUNCATED;
    if (c < 253) v = c;
    else if (c == 253) { if (!r.le(v, 2)) return PE::TRUNCATED; if (v < 253) return PE::NONCANONICAL; }
    else if (c == 254) { if (!r.le(v, 4)) return PE::TRUNCATED; if (v < 0x10000) return PE::NONCANONICAL; }
    else { if (!r.le(v, 8)) return PE::TRUNCATED; if (v < 0x100000000ULL) return PE::NONCANONICAL; }
    if (v > kMaxSize) return PE::TOO_LARGE;
    return PE::OK;
}
PE GetVarInt(Reader& r, uint64_t max, uint64_t& out)
{
    uint64_t n = 0;
    for (;;) {
        uint8_t c;
        if (!r.get(&c, 1)) return PE::TRUNCATED;
        if (n > (max >> 7)) return PE::VARINT_OVERFLOW;
        n = (n << 7) | (c & 0x7f);
        if (c & 0x80) {
            if (n == max) return PE::VARINT_OVERFLOW;
            ++n;
        } else {
            out = n;
            return PE::OK;
        }
    }
}
PE GetScript(Reader& r, Bytes& s)
{
    uint64_t k;
    if (PE e = GetVarInt(r, 0xffffffffULL, k); e != PE::OK) return e;
    s.clear();
    if (k < 6) {
        uint8_t pl[32];
        size_t n = k < 2 ? 20 : 32;
        if (!r.get(pl, n)) return PE::TRUNCATED;
        if (k == 0) { s = {0x76, 0xa9, 20}; s.insert(s.end(), pl, pl + 20); s.push_back(0x88); s.push_back(0xac); }
        else if (k == 1) { s = {0xa9, 20}; s.insert(s.end(), pl, pl + 20); s.push_back(0x87); }
        else if (k < 4) { s = {33, (uint8_t)k}; s.insert(s.end(), pl, pl + 32); s.push_back(0xac); }
        else {
            // uncompressed key given by x and the parity of y: needs a curve operation (secp256k1 via CPubKey, a primitive)
            uint8_t comp[33];
            comp[0] = (uint8_t)(k - 2);
            memcpy(comp + 1, pl, 32);
            CPubKey pk{std::span<const uint8_t>{comp, 33}};
            if (pk.Decompress() && pk.size() == 65) { s = {65}; s.insert(s.end(), pk.begin(), pk.end()); s.push_back(0xac); }
            // x not on the curve: the script stays empty
        }
        return PE::OK;
    }
    k -= 6;
    if (k > kMaxScript) {
        s = {0x6a};
        return r.skip(k) ? PE::OK : PE::TRUNCATED;
    }
    s.resize((size_t)k);
    if (k && !r.get(s.data(), (size_t)k)) return PE::TRUNCATED;
    return PE::OK;
}

PE Parse(const Bytes& b, SFile& f, size_t* err_off = nullptr)
{
    Reader r{b};
    auto fail = [&](PE e) { if (err_off) *err_off = r.p; return e; };
    f = SFile{};
    if (!r.get(f.magic, 5)) return fail(PE::TRUNCATED);
    if (memcmp(f.magic, kMagic, 5) != 0) return fail(PE::BAD_MAGIC);
    uint64_t v;
    if (!r.le(v, 2)) return fail(PE::TRUNCATED);
    f.version = (uint16_t)v;
    if (f.version != 2) return fail(PE::BAD_VERSION);
    if (!r.get(f.net, 4)) return fail(PE::TRUNCATED);
    if (memcmp(f.net, kRegtestNet, 4) != 0) return fail(PE::BAD_NET);
    if (!r.get(f.base.data(), 32)) return fail(PE::TRUNCATED);
    if (!r.le(f.count, 8)) return fail(PE::TRUNCATED);
    uint64_t left = f.count;
    while (left > 0) {
        SGroup g;
        if (!r.get(g.txid.data(), 32)) return fail(PE::TRUNCATED);
        uint64_t n;
        if (PE e = GetCompact(r, n); e != PE::OK) return fail(e);
        if (n > left) return fail(PE::GROUP_EXCEEDS_COUNT);
        for (uint64_t i = 0; i < n; ++i) {
            SCoin c;
            if (PE e = GetCompact(r, c.vout); e != PE::OK) return fail(e);
            uint64_t code, amt;
            if (PE e = GetVarInt(r, 0xffffffffULL, code); e != PE::OK) return fail(e);
            c.v.height = (uint32_t)(code >> 1);
            c.v.coinbase = code & 1;
            if (PE e = GetVarInt(r, UINT64_MAX, amt); e != PE::OK) return fail(e);
            c.v.amount = MyDecompressAmount(amt);
            if (PE e = GetScript(r, c.v.script); e != PE::OK) return fail(e);
            g.coins.push_back(std::move(c));
            --left;
        }
        f.groups.push_back(std::move(g));
    }
    if (r.p != b.size()) return fail(PE::TRAILING);
    return PE::OK;
}

/** The coin set a parsed file denotes. `conflict` = one outpoint given twice with different contents (which one a loader keeps is
 *  not part of the format: the oracle then accepts either outcome). */
CoinSet ToSet(const SFile& f, bool& dup, bool& conflict)
{
    CoinSet s;
    dup = conflict = false;
    for (auto& g : f.groups)
        for (auto& c : g.coins) {
            OutKey k{g.txid, (uint32_t)c.vout};
            auto [it, ins] = s.emplace(k, c.v);
            if (!ins) { dup = true; if (!(it->second == c.v)) conflict = true; }
        }
    return s;
}

/** hash_serialized of a coin set written from its definition: SHA256d over, for every coin in (txid bytes, vout) order,
 *  txid | vout LE32 | (height*2+coinbase) LE32 | amount LE64 | CompactSize(script length) | script. */
uint256 SetHash(const CoinSet& s, uint32_t max_height = UINT32_MAX)
{
    CSHA256 h;
    Bytes rec;
    for (auto& [k, c] : s) {
        if (c.height > max_height) continue;
        rec.clear();
        rec.insert(rec.end(), k.first.begin(), k.first.end());
        for (int i = 0; i < 4; ++i) rec.push_back((uint8_t)(k.second >> (8 * i)));
        uint32_t code = c.height * 2 + (c.coinbase ? 1 : 0);
        for (int i = 0; i < 4; ++i) rec.push_back((uint8_t)(code >> (8 * i)));
        for (int i = 0; i < 8; ++i) rec.push_back((uint8_t)(c.amount >> (8 * i)));
        PutCompact(rec, c.script.size());
        rec.insert(rec.end(), c.script.begin(), c.script.end());
        h.Write(rec.data(), rec.size());
    }
    uint8_t d1[32];
    h.Finalize(d1);
    uint256 out;
    CSHA256().Write(d1, 32).Finalize(out.begin());
    return out;
}
uint64_t SetFp(const CoinSet& s)
{
    uint64_t h = s.size();
    for (auto& [k, c] : s) {
        uint64_t a;
        memcpy(&a, k.first.data(), 8);
        h = mix64(h, a ^ k.second);
        h = mix64(h, c.amount ^ ((uint64_t)c.height << 40) ^ c.coinbase);
        h = mix64(h, strhash(std::string_view((const char*)c.script.data(), c.script.size())));
    }
    return h;
}

// ------------------------------------------------------------------------------------------------------------------
// Plan
enum OpKind { OP_TRY = 1, OP_CONNECT, OP_MEMPOOL, OP_INVALIDATE, OP_RECONSIDER, OP_BGVALIDATE, OP_REBUILD, OP_RACE };
enum Mut {
    M_NONE, M_VALUE, M_HEIGHT, M_CBFLAG, M_SCRIPT_BYTE, M_SCRIPT_LEN, M_SCRIPT_KIND, M_VOUT, M_TXID, M_DROP, M_ADD, M_DUP, M_COUNT, M_BASEHASH,
    M_MAGIC, M_VERSION, M_NETMAGIC, M_GROUPCOUNT, M_REORDER, M_REENCODE, M_EMPTYGROUP, M_BITFLIP, M_BYTESET, M_TRUNC, M_APPEND, M_INSERT, M_DELETE, N_MUT
};
const char* kMutName[] = {"none", "value", "height", "coinbase-bit", "script-byte", "script-length", "script-kind", "vout", "txid", "drop-coin", "add-coin", "dup-coin",
                          "coins-count", "base-hash", "magic", "version", "net-magic", "group-count", "reorder-groups", "re-encode-script-raw", "empty-group", "bit-flip",
                          "byte-set", "truncate", "append", "insert-byte", "delete-byte"};
enum StreamMode { S_PLAIN, S_SHORT, S_SHORT_UNBUF, S_EOF, S_EIO, S_FILE, N_STREAM };
const char* kStreamName[] = {"plain", "short-reads", "short-reads-unbuffered", "EOF-at", "EIO-at", "real-file"};
const char* kAddrName[] = {"abs", "meta", "record", "field", "from-end"};
// OP_TRY arguments
enum { A_SRC, A_MUT, A_P1, A_P2, A_P3, A_P4, A_STREAM, A_SADDR, A_SX, A_SY, A_FLAGS, A_N };

Op MakeTry(Rng& rng, int mut, const std::vector<uint32_t>& stream_w, int src = -1)
{
    Op op;
    op.kind = OP_TRY;
    op.a.assign(A_N, 0);
    op.a[A_SRC] = src >= 0 ? src : (int64_t)rng.pick({90, 5, 5});
    op.a[A_MUT] = mut;
    op.a[A_P1] = (int64_t)rng.below(1 << 20);
    op.a[A_P2] = (int64_t)rng.below(1 << 20);
    op.a[A_P3] = (int64_t)rng.below(1 << 20);
    op.a[A_P4] = (int64_t)rng.below(1 << 20);
    if (mut == M_BITFLIP || mut == M_BYTESET || mut == M_TRUNC || mut == M_INSERT || mut == M_DELETE) op.a[A_P1] = (int64_t)rng.pick({2, 3, 4, 6, 2}); // address mode
    op.a[A_STREAM] = (int64_t)rng.pick(stream_w);
    op.a[A_SADDR] = (int64_t)rng.pick({2, 1, 4, 4, 2});
    op.a[A_SX] = (int64_t)rng.below(1 << 20);
    op.a[A_SY] = (int64_t)rng.below(1 << 20);
    op.a[A_FLAGS] = (rng.chance(1, 4) ? 1 : 0) | (rng.chance(1, 2) ? 2 : 0);
    return op;
}

Plan Gen(uint64_t seed, Tier tier)
{
    Rng rng(seed);
    Plan p;
    const bool thorough = tier == Tier::THOROUGH;
    int chain = rng.chance(3, 5) ? 0 : 1; // 0: TestChain100 chain (base 110), 1: CreateBlockChain chain (base 200)
    int base = chain == 0 ? 110 : 200;
    p.knobs["chain"] = chain;
    p.knobs["extra"] = rng.chance(1, 5) ? 0 : rng.range(1, 12);
    // blocks the target has connected before the attempts: mostly few; sometimes just below the base; sometimes >= 100 (mempool needs a
    // mature coinbase); rarely at or above the base (then every snapshot has no more work than the tip)
    int64_t h0;
    switch (rng.pick({45, 15, 25, 8, 7})) {
    case 0: h0 = rng.range(0, 8); break;
    case 1: h0 = base - 1 - rng.below(3); break;
    case 2: h0 = rng.range(100, base - 1); break;
    case 3: h0 = base; break;
    default: h0 = rng.range(0, base - 1); break;
    }
    p.knobs["h0"] = h0;
    p.knobs["hdr_limit"] = rng.chance(1, 25) ? rng.range(0, base - 1) : 100000; // headers the target knows (rarely: not up to the base)
    p.knobs["fork_known"] = rng.chance(1, 4);
    p.knobs["fork_first"] = rng.chance(1, 2);
    p.knobs["fork_len"] = rng.chance(1, 2) ? rng.range(base + 13, base + 30) : rng.range(20, base - 1);
    if (p.knobs["fork_known"] && rng.chance(1, 2)) {
        // the target's ACTIVE chain is the fork (it only knows the headers of the snapshot's chain); half of the time it sits at or above the
        // base height but below the best header, so that only the work comparison stands between the snapshot and activation
        p.knobs["fork_active"] = 1;
        int64_t extra = p.knobs["extra"];
        int64_t fl = (int64_t)rng.pick({5, 3, 2}) == 0 ? base + rng.range(0, std::max<int64_t>(0, extra - 1)) : rng.chance(3, 5) ? rng.range(20, base - 1) : rng.range(base + 13, base + 30);
        p.knobs["fork_len"] = fl;
        p.knobs["h0"] = rng.chance(2, 3) ? fl : rng.range(0, fl);
    }
    p.knobs["t_on_disk"] = rng.chance(1, 4);
    p.knobs["coins_cache_kb"] = rng.chance(1, 2) ? rng.range(8, 64) : 8192;
    // swarm: mutation and stream weights of this run
    std::vector<uint32_t> mw(N_MUT);
    for (int m = 0; m < N_MUT; ++m) mw[m] = rng.chance(1, 5) ? 0 : 1 + (uint32_t)rng.below(10);
    mw[M_NONE] = 2 + (uint32_t)rng.below(4);
    mw[M_BITFLIP] += 6;
    mw[M_TRUNC] += 4;
    std::vector<uint32_t> sw = {40, 8, 4, (uint32_t)rng.below(10), (uint32_t)rng.below(8), 8};
    if (rng.chance(1, 4)) sw[S_EOF] = sw[S_EIO] = 0; // runs without stream faults
    int mode = (int)rng.pick({60, 40}); // 0: random mutations, 1: sweep over one coin record / the metadata
    auto env_op = [&](std::vector<Op>& ops) {
        switch (rng.pick({30, 20, 15, 12, 10, 13})) {
        case 0: ops.push_back(Op(OP_CONNECT, {(int64_t)rng.skewed(1, 40)})); break;
        case 1: ops.push_back(Op(OP_MEMPOOL, {1, (int64_t)rng.below(1000)})); break;
        case 2: ops.push_back(Op(OP_MEMPOOL, {0, 0})); break;
        case 3: ops.push_back(Op(OP_INVALIDATE, {(int64_t)rng.pick({3, 3, 2, 2}), (int64_t)rng.below(1000)})); break;
        case 4: ops.push_back(Op(OP_RECONSIDER, {(int64_t)rng.below(1000)})); break;
        default: ops.push_back(Op(OP_REBUILD, {(int64_t)rng.pick({4, 2, 3, 1}), (int64_t)rng.below(1000)})); break;
        }
        if (rng.chance(1, 3)) ops.push_back(Op(OP_RACE, {(int64_t)rng.below(6), (int64_t)rng.below(2)}));
    };
    int nops = (int)rng.range(thorough ? 150 : 60, thorough ? 420 : 150);
    if (mode == 0) {
        for (int i = 0; i < nops; ++i) {
            if (rng.chance(6, 100)) { env_op(p.ops); continue; }
            p.ops.push_back(MakeTry(rng, (int)rng.pick(mw), sw));
        }
    } else {
        p.knobs["sweep"] = 1;
        p.ops.push_back(MakeTry(rng, M_NONE, {1}, 0));
        int64_t coin = (int64_t)rng.below(1 << 16);
        bool meta = rng.chance(1, 4);
        int span = meta ? 51 : 76;
        int from = 0, to = span;
        if (!thorough) { from = (int)rng.below(span - 24); to = from + 25; }
        for (int rel = from; rel < to; ++rel) {
            int nb = thorough ? 3 : 1;
            for (int k = 0; k < nb; ++k) {
                Op f = MakeTry(rng, M_BITFLIP, {1}, 0);
                f.a[A_P1] = meta ? 1 : 2;
                f.a[A_P2] = meta ? rel : coin;
                f.a[A_P3] = rel;
                f.a[A_P4] = (int64_t)rng.below(8);
                p.ops.push_back(f);
            }
            Op t = MakeTry(rng, M_TRUNC, {1}, 0);
            t.a[A_P1] = meta ? 1 : 2;
            t.a[A_P2] = meta ? rel : coin;
            t.a[A_P3] = rel;
            p.ops.push_back(t);
            if (rng.chance(1, 3)) {
                Op s = MakeTry(rng, M_NONE, {0, 0, 0, 1, 1, 0}, 0);
                s.a[A_SADDR] = meta ? 1 : 2;
                s.a[A_SX] = meta ? rel : coin;
                s.a[A_SY] = rel;
                p.ops.push_back(s);
            }
            if (rng.chance(1, 40)) env_op(p.ops);
        }
    }
    // background validation: at most a few per run (each connects up to `base` blocks)
    int nbg = (int)rng.pick({35, 50, 15});
    for (int i = 0; i < nbg; ++i) {
        Op b(OP_BGVALIDATE, {(int64_t)rng.pick({50, 15, 15, 10, 10}), (int64_t)rng.below(1000), (int64_t)rng.below(1000), (int64_t)rng.below(1 << 20)});
        p.ops.insert(p.ops.begin() + rng.below(p.ops.size() + 1), b);
    }
    return p;
}

std::string Describe(const Op& op)
{
    char b[320];
    switch (op.kind) {
    case OP_TRY: {
        static const char* src[] = {"base", "base-1", "base+1"};
        int mut = (int)op.mod(A_MUT, N_MUT), st = (int)op.mod(A_STREAM, N_STREAM);
        char sf[96] = "";
        if (st == S_EOF || st == S_EIO) snprintf(sf, sizeof sf, "(%s,%ld,%ld)", kAddrName[op.mod(A_SADDR, 5)], (long)op.arg(A_SX), (long)op.arg(A_SY));
        snprintf(b, sizeof b, "activate snapshot[%s] mutation=%s(%ld,%ld,%ld,%ld) stream=%s%s%s%s", src[op.mod(A_SRC, 3)], kMutName[mut], (long)op.arg(A_P1), (long)op.arg(A_P2),
                 (long)op.arg(A_P3), (long)op.arg(A_P4), (st == S_EOF || st == S_EIO) ? "FAULT " : "", kStreamName[st], sf, (op.arg(A_FLAGS) & 1) ? " in_memory" : "");
        return b;
    }
    case OP_CONNECT: snprintf(b, sizeof b, "target connects the next %ld blocks", (long)op.arg(0)); return b;
    case OP_RACE: snprintf(b, sizeof b, "load the unmutated snapshot while the active chain advances (to base%+ld) between the first work check and the end of the load", (long)op.arg(0) - 2); return b;
    case OP_MEMPOOL: return op.arg(0) ? "target mempool: add a transaction" : "target mempool: drop all transactions";
    case OP_INVALIDATE: {
        static const char* w[] = {"the base block", "an ancestor of the base", "a block above the base", "a connected block"};
        snprintf(b, sizeof b, "invalidateblock %s (#%ld)", w[op.mod(0, 4)], (long)op.arg(1));
        return b;
    }
    case OP_RECONSIDER: return "reconsiderblock (one of the invalidated blocks)";
    case OP_BGVALIDATE: {
        static const char* c[] = {"none", "FAULT extra coin in background chainstate", "FAULT coin value changed in background chainstate", "FAULT coin removed from background chainstate", "FAULT coin height changed in background chainstate"};
        snprintf(b, sizeof b, "activate the unmutated snapshot, feed blocks up to the base to the background chainstate (corruption: %s)", c[op.mod(0, 5)]);
        return b;
    }
    case OP_REBUILD: {
        static const char* w[] = {"same height", "just below the base", ">=100 blocks", "at the base"};
        snprintf(b, sizeof b, "fresh target node (%s)", w[op.mod(0, 4)]);
        return b;
    }
    }
    return "?";
}

// ------------------------------------------------------------------------------------------------------------------
// Simulated stream: the snapshot bytes served through fopencookie with short reads, an early EOF or an I/O error.
struct Cookie {
    const Bytes* d{nullptr};
    size_t pos{0};
    int mode{S_PLAIN};
    size_t fault_at{0};
    uint64_t rs{1};
    bool fired{false};
    size_t short_reads{0};
    //! interleaving seam: called once, from inside the first read at or beyond `hook_at` (the loader reads without holding cs_main)
    std::function<void()> hook;
    size_t hook_at{0};
};
ssize_t CookieRead(void* cp, char* buf, size_t n)
{
    Cookie& c = *(Cookie*)cp;
    if (c.hook && c.pos >= c.hook_at) {
        auto h = std::move(c.hook);
        c.hook = nullptr;
        h();
    }
    size_t limit = c.d->size();
    if ((c.mode == S_EOF || c.mode == S_EIO) && c.fault_at < limit) limit = c.fault_at;
    if (c.pos >= limit) {
        if (c.mode == S_EIO && c.pos >= c.fault_at) { c.fired = true; errno = EIO; return -1; }
        if (c.mode == S_EOF && c.fault_at < c.d->size()) c.fired = true;
        return 0;
    }
    size_t take = std::min(n, limit - c.pos);
    if (c.mode == S_SHORT || c.mode == S_SHORT_UNBUF) {
        size_t cap = 1 + (size_t)(splitmix64(c.rs) % 97);
        if (cap < take) { take = cap; ++c.short_reads; }
    }
    memcpy(buf, c.d->data() + c.pos, take);
    c.pos += take;
    return (ssize_t)take;
}
int CookieClose(void*) { return 0; }

enum Reason { R_SAME, R_UNDECIDED, R_STREAM, R_MALFORMED, R_NOT_AU, R_UNKNOWN_HDR, R_INVALID_BASE, R_WORK, R_SET };
const char* kReasonName[] = {"same-set", "undecided", "stream-cut", "malformed", "not-assumeutxo-base", "unknown-base-header", "invalid-base", "not-more-work", "different-set"};
const char* kReasonClass[] = {"", "", "activated-despite-truncated-or-failing-stream", "activated-malformed-snapshot", "activated-non-assumeutxo-base", "activated-unknown-base-header",
                              "activated-invalid-base-block", "activated-base-without-more-work", "activated-coin-set-differs-from-commitment"};

struct Sim {
    Ctx& ctx;
    int chain, base, extra;
    std::vector<std::shared_ptr<const CBlock>> P; //!< P[h-1]: block at height h of the primary chain
    std::vector<std::shared_ptr<const CBlock>> F; //!< fork chain from genesis (headers only are given to the target)
    Bytes snap[3];                                //!< real dumps at base, base-1, base+1 (empty if not produced)
    SFile parsed[3];
    std::vector<Field> fields[3];
    std::vector<std::pair<size_t, size_t>> rec[3]; //!< byte range of each coin record
    CoinSet all_coins;       //!< every coin the primary chain creates (all coinbase outputs), by model
    CoinSet all_coins_f;     //!< the same for the fork chain
    bool t_fork_active{false}; //!< the target connects the fork's blocks (its active chain), the primary chain is headers-only
    CoinSet committed;       //!< the model's UTXO set at the base block
    CoinSet fork_committed;  //!< the same for the fork chain's assumeutxo block, if it has one
    uint256 fork_au_hash;
    CKey key;
    CScript spk_a, spk_b;
    int64_t t0{1598887952}, now{0};

    // target node and the model of what it was given
    std::unique_ptr<SimNode> T;
    int tserial{0};
    int t_hdr{0};            //!< primary-chain headers known up to this height
    bool t_fork{false};
    int t_blocks{0};         //!< primary-chain blocks delivered up to this height
    std::set<int> marks;     //!< heights of the primary chain passed to invalidateblock and not reconsidered
    std::vector<CTransactionRef> pool_txs;
    std::set<int> spent_cb;
    std::map<uint256, std::pair<int, int>> known; //!< header hash -> (0 primary / 1 fork, height)
    int n_activated{0}, n_rejected_mutated{0};

    explicit Sim(Ctx& c) : ctx(c)
    {
        chain = (int)std::clamp<int64_t>(c.knob("chain", 0), 0, 1);
        base = chain == 0 ? 110 : 200;
        extra = (int)std::clamp<int64_t>(c.knob("extra", 2), 0, 40);
        const unsigned char k1[32] = {0, 0, 0, 0, 0, 0, 0, 0, 0, 0, 0, 0, 0, 0, 0, 0, 0, 0, 0, 0, 0, 0, 0, 0, 0, 0, 0, 0, 0, 0, 0, 1};
        key.Set(k1, k1 + 32, true);
        spk_a = CScript() << ToByteVector(key.GetPubKey()) << OP_CHECKSIG;
        uint256 wsh;
        const unsigned char op_true = OP_TRUE;
        CSHA256().Write(&op_true, 1).Finalize(wsh.begin());
        spk_b = CScript() << OP_0 << ToByteVector(wsh);
    }

    [[noreturn]] void SimFail(const char* what, const std::string& d) { ctx.fail(std::string("sim-") + what, d); }

    // ---- chains -------------------------------------------------------------------------------------------------
    /** Coinbase-only block of the CreateBlockChain recipe (written from its description: version 4, time = genesis + height (+skew),
     *  one coinbase paying the subsidy to P2WSH(OP_TRUE), scriptSig = height OP_0, nLockTime = height-1, no witness commitment). */
    std::shared_ptr<const CBlock> BuildPlain(const uint256& prev, int h, const CChainParams& params, uint32_t time_skew)
    {
        CMutableTransaction cb;
        cb.nLockTime = (uint32_t)(h - 1);
        cb.vin.resize(1);
        cb.vin[0].prevout.SetNull();
        cb.vin[0].nSequence = 0xfffffffe;
        cb.vin[0].scriptSig = CScript() << (int64_t)h << OP_0;
        cb.vout.resize(1);
        cb.vout[0].scriptPubKey = spk_b;
        cb.vout[0].nValue = (CAmount)((50ULL * 100000000ULL) >> (h / 150)); // regtest halving interval 150
        auto b = std::make_shared<CBlock>();
        b->vtx = {MakeTransactionRef(std::move(cb))};
        b->nVersion = 4;
        b->hashPrevBlock = prev;
        b->hashMerkleRoot = b->vtx[0]->GetHash().ToUint256(); // a single transaction: the root is its txid
        b->nTime = params.GenesisBlock().nTime + (uint32_t)h + time_skew;
        b->nBits = params.GenesisBlock().nBits;
        b->nNonce = 0;
        while (!CheckProofOfWork(b->GetHash(), b->nBits, params.GetConsensus())) ++b->nNonce;
        return b;
    }
    std::shared_ptr<const CBlock> MineLikeTestChain(SimNode& s)
    {
        node::BlockCreateOptions o;
        o.use_mempool = false;
        o.coinbase_output_script = spk_a;
        auto tmpl = node::BlockAssembler{s.cs(), s.mempool.get(), o}.CreateNewBlock();
        CBlock block = tmpl->block;
        node::RegenerateCommitments(block, s.cm());
        while (!CheckProofOfWork(block.GetHash(), block.nBits, s.params->GetConsensus())) ++block.nNonce;
        return std::make_shared<const CBlock>(std::move(block));
    }
    void AddModelCoins(CoinSet& set, const CBlock& b, int h)
    {
        const CTransaction& tx = *b.vtx[0];
        Txid32 id = ToArr(tx.GetHash().ToUint256());
        for (size_t i = 0; i < tx.vout.size(); ++i) {
            const CScript& s = tx.vout[i].scriptPubKey;
            if ((s.size() > 0 && s[0] == 0x6a) || s.size() > kMaxScript) continue; // provably unspendable outputs never enter the set
            set[{id, (uint32_t)i}] = CoinVal{(uint32_t)h, true, (uint64_t)tx.vout[i].nValue, Bytes(s.begin(), s.end())};
        }
    }
    Bytes Dump(SimNode& s, int h)
    {
        fs::path path = fs::PathFromString(RunDir()) / fs::u8path("snapshot_" + std::to_string(h) + ".dat");
        {
            AutoFile af{fsbridge::fopen(path, "wb")};
            if (af.IsNull()) SimFail("dump-failed", "cannot open dump file");
            node::NodeContext nc;
            UniValue r = CreateUTXOSnapshot(nc, s.cs(), std::move(af), path, path);
            (void)r;
        }
        Bytes out;
        FILE* f = fsbridge::fopen(path, "rb");
        if (!f) SimFail("dump-failed", "cannot reopen dump file");
        uint8_t buf[8192];
        size_t n;
        while ((n = fread(buf, 1, sizeof buf, f)) > 0) out.insert(out.end(), buf, buf + n);
        fclose(f);
        return out;
    }
    void BuildSource()
    {
        NodeOpts o;
        o.dir = RunDir() + "/source";
        SimNode S(o);
        if (!S.Start()) SimFail("source-start-failed", S.last_error);
        now = t0;
        for (int h = 1; h <= base + extra; ++h) {
            now = t0 + h - 1; // TestChain100Setup: mock clock starts at 1598887952 and advances 1 s per mined block
            SetMockTime(std::chrono::seconds{now});
            std::shared_ptr<const CBlock> b = chain == 0 ? MineLikeTestChain(S) : BuildPlain(h == 1 ? S.params->GenesisBlock().GetHash() : P.back()->GetHash(), h, *S.params, 0);
            S.ProcessBlock(b);
            if (S.Height() != h || S.TipHash() != b->GetHash()) SimFail("source-block-rejected", "height " + std::to_string(h));
            P.push_back(b);
            AddModelCoins(all_coins, *b, h);
            if (h == base) { snap[0] = Dump(S, h); committed = all_coins; }
            if (h == base - 1) snap[1] = Dump(S, h);
            if (h == base + 1) snap[2] = Dump(S, h);
        }
        const uint256 want = U256(kCommit[chain].blockhash);
        if (P[base - 1]->GetHash() != want) SimFail("chain-not-reproduced", "block " + std::to_string(base) + " is " + P[base - 1]->GetHash().ToString() + ", the commitment names " + want.ToString());
        // the node's own table must be the one the oracle copied
        auto au = S.params->AssumeutxoForHeight(base);
        if (!au || au->blockhash != want || au->hash_serialized.ToString() != kCommit[chain].hash_serialized) SimFail("commitment-table-differs", "m_assumeutxo_data differs from the oracle's copy");
        if (SetHash(committed) != U256(kCommit[chain].hash_serialized)) SimFail("model-set-hash-differs", "the model's UTXO(base) does not hash to the commitment: " + SetHash(committed).ToString());
        S.Stop(false);
        // codec self-check on the real dumps
        for (int i = 0; i < 3; ++i) {
            if (snap[i].empty()) continue;
            size_t off = 0;
            PE e = Parse(snap[i], parsed[i], &off);
            if (e != PE::OK) SimFail("codec-cannot-parse-real-dump", std::string(PEName(e)) + " at " + std::to_string(off));
            if (Encode(parsed[i], &fields[i]) != snap[i]) SimFail("codec-roundtrip-differs", "dump " + std::to_string(i));
            bool dup, conflict;
            CoinSet s = ToSet(parsed[i], dup, conflict);
            int h = i == 0 ? base : i == 1 ? base - 1 : base + 1;
            CoinSet want_set;
            for (auto& [k, c] : all_coins) if ((int)c.height <= h) want_set.insert({k, c});
            if (dup || s != want_set) SimFail("dump-differs-from-model", "dump at height " + std::to_string(h));
            // record ranges
            size_t nc = parsed[i].NCoins();
            rec[i].assign(nc, {0, 0});
            std::vector<size_t> group_first;
            for (auto& fl : fields[i]) {
                if (fl.coin < 0) continue;
                auto& r = rec[i][fl.coin];
                if (fl.cls == F_TXID) { r.first = fl.off; r.second = fl.off + fl.len; }
                else if (fl.cls == F_VOUT && r.second == 0) { r.first = fl.off; r.second = fl.off + fl.len; }
                else r.second = std::max(r.second, fl.off + fl.len);
            }
        }
        // fork chain (headers only are ever given to the target)
        int flen = (int)std::clamp<int64_t>(ctx.knob("fork_len", 30), 1, 260);
        if (ctx.knob("fork_known", 0)) {
            auto params = CChainParams::RegTest({});
            if (chain == 0 && flen >= base + 13) flen = 200 + flen % 5; // long fork of the 110-chain: the 200-chain itself (contains an assumeutxo block)
            uint256 prev = params->GenesisBlock().GetHash();
            CoinSet fc;
            for (int h = 1; h <= flen; ++h) {
                auto b = BuildPlain(prev, h, *params, chain == 0 ? 0 : 1000);
                prev = b->GetHash();
                F.push_back(b);
                if (chain == 0 && h <= 200) AddModelCoins(fc, *b, h);
                AddModelCoins(all_coins_f, *b, h);
            }
            if (chain == 0 && flen >= 200) {
                if (F[199]->GetHash() != U256(kCommit[1].blockhash)) SimFail("chain-not-reproduced", "fork block 200 is " + F[199]->GetHash().ToString());
                fork_committed = fc;
                fork_au_hash = F[199]->GetHash();
            }
        }
    }

    // ---- target node --------------------------------------------------------------------------------------------
    void BuildTarget(int h0, bool clean = false)
    {
        if (T) T->Stop(false);
        T.reset();
        marks.clear();
        pool_txs.clear();
        spent_cb.clear();
        known.clear();
        const bool on_disk = ctx.knob("t_on_disk", 0) != 0;
        NodeOpts o;
        o.dir = RunDir() + "/target" + std::to_string(++tserial);
        o.coins_db_in_memory = !on_disk;
        o.block_tree_db_in_memory = !on_disk;
        o.require_standard = false;
        o.coins_cache_bytes = (uint64_t)std::clamp<int64_t>(ctx.knob("coins_cache_kb", 8192), 4, 65536) << 10;
        T = std::make_unique<SimNode>(o);
        if (!T->Start()) SimFail("target-start-failed", T->last_error);
        const int len = (int)P.size();
        t_hdr = clean ? len : (int)std::clamp<int64_t>(ctx.knob("hdr_limit", 100000), 0, len);
        t_fork = !clean && !F.empty();
        t_fork_active = t_fork && ctx.knob("fork_active", 0) != 0;
        auto give = [&](const std::vector<std::shared_ptr<const CBlock>>& c, int upto, int id) {
            std::vector<CBlockHeader> v;
            for (int h = 1; h <= upto; ++h) { v.push_back(CBlockHeader{*c[h - 1]}); known[c[h - 1]->GetHash()] = {id, h}; }
            BlockValidationState st;
            if (!v.empty() && !T->ProcessHeaders(v, st)) SimFail("target-headers-rejected", st.ToString());
        };
        if (t_fork && ctx.knob("fork_first", 0)) give(F, (int)F.size(), 1);
        give(P, t_hdr, 0);
        if (t_fork && !ctx.knob("fork_first", 0)) give(F, (int)F.size(), 1);
        t_blocks = 0;
        Connect(t_fork_active ? h0 : std::min(h0, t_hdr));
    }
    const std::vector<std::shared_ptr<const CBlock>>& ActiveBlocks() const { return t_fork_active ? F : P; }
    const CoinSet& ActiveCoins() const { return t_fork_active ? all_coins_f : all_coins; }
    void Connect(int upto)
    {
        const auto& A = ActiveBlocks();
        upto = std::min(upto, (int)A.size());
        for (int h = t_blocks + 1; h <= upto; ++h) {
            T->ProcessBlock(A[h - 1]);
            if (!t_fork_active) {
                known[A[h - 1]->GetHash()] = {0, h};
                t_hdr = std::max(t_hdr, h);
            }
            t_blocks = h;
        }
        if (T->Fatal()) SimFail("target-fatal-error", T->notifications->fatal_errors.empty() ? T->notifications->flush_errors[0] : T->notifications->fatal_errors[0]);
    }
    int MinMark() const { return marks.empty() ? INT32_MAX : *marks.begin(); }

    struct NodeState {
        std::vector<std::string> chainstates;
        const void* active{nullptr};
        uint256 tip;
        int height{-1};
        std::vector<uint256> pool;
        std::vector<std::string> dir;
        uint64_t index_digest{0};
        int snapshot_height{-1};
    };
    NodeState Capture()
    {
        NodeState s;
        {
            LOCK(cs_main);
            ChainstateManager& cm = T->cm();
            for (auto& cs : cm.m_chainstates) {
                char b[256];
                snprintf(b, sizeof b, "%p from=%s assume=%d target=%s tip=%s", (void*)cs.get(), cs->m_from_snapshot_blockhash ? cs->m_from_snapshot_blockhash->ToString().c_str() : "-", (int)cs->m_assumeutxo,
                         cs->m_target_blockhash ? cs->m_target_blockhash->ToString().c_str() : "-", cs->m_chain.Tip() ? cs->m_chain.Tip()->GetBlockHash().ToString().c_str() : "-");
                s.chainstates.push_back(b);
            }
            Chainstate& a = cm.CurrentChainstate();
            s.active = &a;
            s.tip = a.m_chain.Tip() ? a.m_chain.Tip()->GetBlockHash() : uint256{};
            s.height = a.m_chain.Height();
            s.snapshot_height = cm.m_blockman.m_snapshot_height.value_or(-1);
            std::vector<std::tuple<uint256, uint32_t, unsigned, uint64_t>> idx;
            for (auto& [h, bi] : cm.m_blockman.m_block_index) idx.emplace_back(h, bi.nStatus, bi.nTx, bi.m_chain_tx_count);
            std::sort(idx.begin(), idx.end());
            uint64_t d = cm.m_best_header ? strhash(cm.m_best_header->GetBlockHash().ToString()) : 0;
            for (auto& [h, st, ntx, ctx_] : idx) d = mix64(mix64(d, h.GetUint64(0)), ((uint64_t)st << 40) ^ ((uint64_t)ntx << 20) ^ ctx_);
            s.index_digest = d;
        }
        if (T->mempool) {
            for (auto& info : T->mempool->infoAll()) s.pool.push_back(info.tx->GetHash().ToUint256());
            std::sort(s.pool.begin(), s.pool.end());
        }
        // top-level entries only (chainstate directories): an ordinary flush may legitimately create blocks/rev*.dat
        std::error_code ec;
        for (auto& e : std::filesystem::directory_iterator(T->opts.dir, ec)) s.dir.push_back(e.path().filename().string());
        std::sort(s.dir.begin(), s.dir.end());
        return s;
    }
    static std::string Join(const std::vector<std::string>& v)
    {
        std::string o;
        for (auto& s : v) o += s + ";";
        return o;
    }
    /** Coins of a chainstate read through a CCoinsViewDB cursor (the caller flushes first where needed). */
    bool ReadDb(Chainstate& cs, CoinSet& out)
    {
        LOCK(cs_main);
        std::unique_ptr<CCoinsViewCursor> cur = cs.CoinsDB().Cursor();
        for (; cur->Valid(); cur->Next()) {
            COutPoint k;
            Coin c;
            if (!cur->GetKey(k) || !cur->GetValue(c)) return false;
            out[{ToArr(k.hash.ToUint256()), k.n}] = CoinVal{(uint32_t)c.nHeight, (bool)c.fCoinBase, (uint64_t)c.out.nValue, Bytes(c.out.scriptPubKey.begin(), c.out.scriptPubKey.end())};
        }
        return true;
    }
    /** The existing chainstate's UTXO set must be the model's UTXO(active height): every coin readable through the cache, and (optionally)
     *  the flushed database holds exactly that set with the expected hash_serialized. */
    void CheckTargetUtxo(const char* cls, const std::string& where, bool with_flush)
    {
        int h;
        {
            LOCK(cs_main);
            Chainstate& a = T->cm().CurrentChainstate();
            h = a.m_chain.Height();
            for (auto& [k, c] : ActiveCoins()) {
                if ((int)c.height > h) continue;
                const Coin& got = a.CoinsTip().AccessCoin(COutPoint(Txid::FromUint256(FromArr(k.first)), k.second));
                bool spent_by_model = false; // mempool transactions do not spend from the chainstate
                if (got.IsSpent() != spent_by_model || (uint64_t)got.out.nValue != c.amount || got.nHeight != c.height || (bool)got.fCoinBase != c.coinbase ||
                    Bytes(got.out.scriptPubKey.begin(), got.out.scriptPubKey.end()) != c.script)
                    ctx.failf(cls, "%s: coin created at height %u differs or is missing in the existing chainstate (tip height %d)", where.c_str(), c.height, h);
            }
        }
        if (!with_flush) return;
        uint64_t n = 0;
        uint256 got = T->UtxoHash(&n);
        uint64_t want_n = 0;
        for (auto& [k, c] : ActiveCoins()) want_n += (int)c.height <= h;
        uint256 want = SetHash(ActiveCoins(), (uint32_t)h);
        if (n != want_n || got != want) ctx.failf(cls, "%s: existing chainstate has %lu coins hash %s, the model's UTXO(%d) has %lu coins hash %s", where.c_str(), (unsigned long)n, got.ToString().c_str(), h, (unsigned long)want_n, want.ToString().c_str());
    }

    // ---- mutations ----------------------------------------------------------------------------------------------
    size_t Addr(int mode, uint64_t x, uint64_t y, int src)
    {
        const size_t size = snap[src].size();
        const size_t nc = rec[src].size();
        switch (mode % 5) {
        case 0: return (size_t)(x % size);
        case 1: return (size_t)(x % 51);
        case 2: {
            auto [a, b] = rec[src][x % nc];
            return a + (size_t)(y % std::max<size_t>(1, b - a));
        }
        case 3: {
            int coin = (int)(x % nc), cls = F_TXID + (int)((y >> 8) % 7);
            for (auto& f : fields[src])
                if (f.coin == coin && f.cls == cls) return f.off + (size_t)((y & 0xff) % f.len);
            return rec[src][coin].first;
        }
        default: return size - 1 - (size_t)(x % std::min<size_t>(size, 80));
        }
    }
    int FieldAt(int src, size_t off) const
    {
        for (auto& f : fields[src])
            if (off >= f.off && off < f.off + f.len) return f.cls;
        return -1;
    }

    Bytes Mutate(const Op& op, int src, int mut, std::string& note)
    {
        const uint64_t p1 = (uint64_t)op.arg(A_P1), p2 = (uint64_t)op.arg(A_P2), p3 = (uint64_t)op.arg(A_P3), p4 = (uint64_t)op.arg(A_P4);
        Bytes b = snap[src];
        const int snap_h = src == 0 ? base : src == 1 ? base - 1 : base + 1;
        auto at = [&](size_t off) {
            int c = FieldAt(src, off);
            note = std::string(c >= 0 ? kFieldName[c] : "?") + "@" + std::to_string(off);
        };
        switch (mut) {
        case M_NONE: return b;
        case M_BITFLIP: { size_t o = Addr((int)p1, p2, p3, src); b[o] ^= (uint8_t)(1u << (p4 % 8)); at(o); return b; }
        case M_BYTESET: { size_t o = Addr((int)p1, p2, p3, src); uint8_t v = (uint8_t)p4; if (b[o] == v) ++v; b[o] = v; at(o); return b; }
        case M_TRUNC: { size_t o = Addr((int)p1, p2, p3, src); b.resize(o); at(o); return b; }
        case M_INSERT: { size_t o = Addr((int)p1, p2, p3, src); b.insert(b.begin() + o, (uint8_t)p4); at(o); return b; }
        case M_DELETE: { size_t o = Addr((int)p1, p2, p3, src); b.erase(b.begin() + o); at(o); return b; }
        default: break;
        }
        SFile f = parsed[src];
        const size_t nc = f.NCoins();
        size_t gi = 0;
        SCoin& c = f.Coin(p1 % nc, &gi);
        Rng r(p3 * 1000003 + p4);
        auto rand_txid = [&] { Txid32 t; r.fill(t.data(), 32); return t; };
        switch (mut) {
        case M_VALUE:
            switch (p2 % 8) {
            case 0: c.v.amount += 1; break;
            case 1: c.v.amount -= 1; break;
            case 2: c.v.amount += 1 + p3; break;
            case 3: c.v.amount = 0; break;
            case 4: c.v.amount = 2100000000000000ULL; break;
            case 5: c.v.amount = 2100000000000001ULL; break;
            case 6: c.v.amount |= 1ULL << 63; break;
            default: c.v.amount *= 10; break;
            }
            break;
        case M_HEIGHT:
            switch (p2 % 6) {
            case 0: c.v.height += 1; break;
            case 1: c.v.height = c.v.height ? c.v.height - 1 : 1; break;
            case 2: c.v.height = c.v.height ? 0 : 1; break;
            case 3: c.v.height = (uint32_t)snap_h + 1; break;
            case 4: c.v.height = (int)c.v.height == snap_h ? (uint32_t)snap_h - 1 : (uint32_t)snap_h; break;
            default: c.v.height = 0x7fffffff; break;
            }
            break;
        case M_CBFLAG: c.v.coinbase = !c.v.coinbase; break;
        case M_SCRIPT_BYTE: c.v.script[p2 % c.v.script.size()] ^= (uint8_t)(1 + p3 % 255); break;
        case M_SCRIPT_LEN: if (p2 & 1) c.v.script.pop_back(); else c.v.script.push_back((uint8_t)p3); break;
        case M_SCRIPT_KIND:
            switch (p2 % 7) {
            case 0: { Bytes s = {0x76, 0xa9, 20}; for (int i = 0; i < 20; ++i) s.push_back((uint8_t)r.next()); s.push_back(0x88); s.push_back(0xac); c.v.script = s; break; }
            case 1: { Bytes s = {0xa9, 20}; for (int i = 0; i < 20; ++i) s.push_back((uint8_t)r.next()); s.push_back(0x87); c.v.script = s; break; }
            case 2: { CPubKey pk = key.GetPubKey(); pk.Decompress(); Bytes s = {65}; s.insert(s.end(), pk.begin(), pk.end()); s.push_back(0xac); c.v.script = s; break; }
            case 3: c.force_special = 4; c.payload.assign(32, 0xff); break;                    // x >= field prime: not a point
            case 4: c.v.script.assign(10001, 0x51); c.raw_script = true; break;                 // over the script size limit: skipped by loaders
            case 5: c.v.script.clear(); break;
            default: { CPubKey pk = key.GetPubKey(); c.force_special = 5; c.payload.assign(pk.begin() + 1, pk.end()); break; }
            }
            break;
        case M_VOUT:
            switch (p2 % 6) {
            case 0: c.vout += 1; break;
            case 1: c.vout = c.vout == 1 ? 2 : 1; break;
            case 2: c.vout = 0xffff; break;
            case 3: c.vout = kMaxSize; break;
            case 4: c.vout = kMaxSize + 1; break;
            default: c.vout = 0xfffffffeULL; break;
            }
            break;
        case M_TXID: f.groups[gi].txid[p2 % 32] ^= (uint8_t)(1 + p3 % 255); break;
        case M_DROP: {
            auto& g = f.groups[gi];
            size_t in_g = (size_t)(&c - g.coins.data());
            g.coins.erase(g.coins.begin() + in_g);
            if (g.coins.empty()) f.groups.erase(f.groups.begin() + gi);
            if (p2 & 1) f.count -= 1;
            break;
        }
        case M_ADD: {
            SCoin n = c;
            Txid32 same = f.groups[gi].txid;
            if (p2 % 3 == 1) { n.vout = c.vout + 1 + p3 % 5; f.groups[gi].coins.push_back(n); }
            else {
                SGroup g;
                g.txid = p2 % 3 == 0 ? rand_txid() : same;
                if (p2 % 3 == 2) n.vout = c.vout + 1 + p3 % 5;
                g.coins.push_back(n);
                f.groups.insert(f.groups.begin() + (p3 % (f.groups.size() + 1)), g);
            }
            if (p4 & 1) f.count += 1;
            break;
        }
        case M_DUP: {
            SCoin n = c;
            Txid32 same = f.groups[gi].txid;
            if (p2 % 3 == 2) n.v.amount += 1;
            if (p2 % 3 == 1) { SGroup g; g.txid = same; g.coins.push_back(n); f.groups.push_back(g); }
            else {
                auto& g = f.groups[gi];
                size_t in_g = (size_t)(&c - g.coins.data());
                bool before = (p3 & 1) && p2 % 3 == 2; // the differing copy first or second
                g.coins.insert(g.coins.begin() + in_g + (before ? 0 : 1), n);
            }
            if (p4 & 1) f.count += 1;
            break;
        }
        case M_COUNT:
            switch (p2 % 6) {
            case 0: f.count += 1; break;
            case 1: f.count -= 1; break;
            case 2: f.count = 0; break;
            case 3: f.count *= 2; break;
            case 4: f.count = UINT64_MAX; break;
            default: f.count += 2 + p3 % 1000; break;
            }
            break;
        case M_BASEHASH:
            switch (p2 % 9) {
            case 7: case 8:
                // the competing chain's block at the very height of the snapshot (same height as an assumeutxo block, different block)
                if (snap_h >= 1 && (int)F.size() >= snap_h && (int)P.size() >= snap_h && F[snap_h - 1]->GetHash() != P[snap_h - 1]->GetHash()) { f.base = ToArr(F[snap_h - 1]->GetHash()); break; }
                [[fallthrough]];
            case 0: f.base = rand_txid(); break;
            case 1: { int h = 1 + (int)(p3 % P.size()); if (h == snap_h) h = h > 1 ? h - 1 : h + 1; f.base = ToArr(P[h - 1]->GetHash()); break; }
            case 2: case 3: case 4: { int i = (int)(p2 % 9) - 2; if (i == chain && src == 0) i = (i + 1) % 3; f.base = ToArr(U256(kCommit[i].blockhash)); break; }
            case 5: f.base = F.empty() ? rand_txid() : ToArr(F[p3 % F.size()]->GetHash()); break;
            default: f.base.fill(0); break;
            }
            break;
        case M_MAGIC: f.magic[p2 % 5] ^= (uint8_t)(1 + p3 % 255); break;
        case M_VERSION: { static const uint16_t v[] = {0, 1, 3, 0x0200, 0xffff}; f.version = v[p2 % 5]; break; }
        case M_NETMAGIC: {
            static const uint8_t nets[3][4] = {{0xf9, 0xbe, 0xb4, 0xd9}, {0x0b, 0x11, 0x09, 0x07}, {0x0a, 0x03, 0xcf, 0x40}};
            if (p2 % 4 < 3) memcpy(f.net, nets[p2 % 4], 4); else f.net[p3 % 4] ^= (uint8_t)(1 + p4 % 255);
            break;
        }
        case M_GROUPCOUNT: f.groups[gi].declared_delta = (p2 & 1) ? 1 : -1; break;
        case M_REORDER:
            if (f.groups.size() >= 2) {
                if (p2 % 3 == 0) std::swap(f.groups[p3 % f.groups.size()], f.groups[p4 % f.groups.size()]);
                else if (p2 % 3 == 1) std::reverse(f.groups.begin(), f.groups.end());
                else std::rotate(f.groups.begin(), f.groups.begin() + 1 + p3 % (f.groups.size() - 1), f.groups.end());
            }
            break;
        case M_REENCODE: c.raw_script = true; break;
        case M_EMPTYGROUP: { SGroup g; g.txid = rand_txid(); f.groups.insert(f.groups.begin() + (p3 % (f.groups.size() + 1)), g); break; }
        case M_APPEND: {
            b = snap[src];
            switch (p2 % 5) {
            case 0: b.push_back(0); break;
            case 1: for (uint64_t i = 0, n = 1 + p3 % 64; i < n; ++i) b.push_back((uint8_t)r.next()); break;
            case 2: { SFile one = parsed[src]; one.groups.clear(); SGroup g; g.txid = rand_txid(); g.coins.push_back(c); one.groups.push_back(g); Bytes e = Encode(one); b.insert(b.end(), e.begin() + 51, e.end()); break; }
            case 3: b.insert(b.end(), snap[src].begin() + 51, snap[src].end()); break;
            default: b.push_back(0xff); break;
            }
            return b;
        }
        default: break;
        }
        return Encode(f);
    }

    // ---- the oracle's reading of one attempt -----------------------------------------------------------------------
    struct Verdict {
        Reason reason{R_SAME};
        std::string detail;
        bool conflict{false}, dup{false};
        bool equal_work_other_tip{false}; //!< R_WORK because the base has exactly the work of an active tip on a competing chain
        uint64_t set_fp{0};
    };
    /** What the byte string that reaches the loader denotes, and whether the property statement forces a rejection. */
    Verdict Judge(const Bytes& bytes, int smode, size_t fault_at, int active_height, const uint256& active_tip)
    {
        Verdict v;
        Bytes cut;
        const Bytes* eff = &bytes;
        bool eio_pending = false;
        if ((smode == S_EOF || smode == S_EIO) && fault_at < bytes.size()) {
            cut.assign(bytes.begin(), bytes.begin() + fault_at);
            eff = &cut;
            eio_pending = smode == S_EIO;
        }
        SFile f;
        size_t off = 0;
        PE e = Parse(*eff, f, &off);
        if (e != PE::OK) {
            v.reason = (eff == &cut && e == PE::TRUNCATED) ? R_STREAM : R_MALFORMED;
            v.detail = std::string(PEName(e)) + "@" + std::to_string(off);
            return v;
        }
        const uint256 claimed = FromArr(f.base);
        int au = -1;
        for (int i = 0; i < 3; ++i)
            if (U256(kCommit[i].blockhash) == claimed) au = i;
        if (au < 0) { v.reason = R_NOT_AU; return v; }
        auto it = known.find(claimed);
        if (it == known.end()) { v.reason = R_UNKNOWN_HDR; return v; }
        const auto [cid, ch] = it->second;
        if (cid == 0 && MinMark() <= ch) { v.reason = R_INVALID_BASE; return v; }
        if (ch <= active_height) { // every regtest block carries the same work
            v.reason = R_WORK;
            v.equal_work_other_tip = ch == active_height && claimed != active_tip;
            return v;
        }
        const CoinSet& want = cid == 0 ? committed : fork_committed;
        CoinSet s = ToSet(f, v.dup, v.conflict);
        v.set_fp = SetFp(s);
        if (v.conflict) {
            // which copy a loader keeps is not defined by the format: decided only if no choice yields the committed set
            bool could_match = s.size() == want.size();
            if (could_match)
                for (auto& [k, c] : s)
                    if (!want.count(k)) { could_match = false; break; }
            v.reason = could_match ? R_UNDECIDED : R_SET;
            return v;
        }
        if (s != want) { v.reason = R_SET; return v; }
        v.reason = (eio_pending || (smode == S_EIO && fault_at == bytes.size())) ? R_UNDECIDED : R_SAME; // complete file followed by a read error where EOF is expected
        return v;
    }

    struct Outcome {
        bool ok{false};
        std::string err;
        bool fault_fired{false};
        size_t short_reads{0};
    };
    Outcome Activate(const Bytes& bytes, int smode, size_t fault_at, uint64_t sseed, bool in_memory, std::function<void()> hook = nullptr, size_t hook_at = 0)
    {
        Outcome out;
        Cookie ck;
        ck.hook = std::move(hook);
        ck.hook_at = hook_at;
        ck.d = &bytes;
        ck.mode = smode;
        ck.fault_at = fault_at;
        ck.rs = sseed | 1;
        FILE* fp = nullptr;
        if (smode == S_FILE) {
            std::string path = RunDir() + "/attempt.dat";
            FILE* w = fopen(path.c_str(), "wb");
            if (!w || fwrite(bytes.data(), 1, bytes.size(), w) != bytes.size() || fclose(w) != 0) SimFail("attempt-file", "cannot write " + path);
            fp = fopen(path.c_str(), "rb");
        } else {
            cookie_io_functions_t io{};
            io.read = CookieRead;
            io.close = CookieClose;
            fp = fopencookie(&ck, "r", io);
            if (fp && smode == S_SHORT_UNBUF) setvbuf(fp, nullptr, _IONBF, 0);
        }
        if (!fp) SimFail("attempt-stream", "cannot open stream");
        {
            AutoFile af{fp};
            node::SnapshotMetadata meta{T->params->MessageStart()};
            bool meta_ok = true;
            try {
                af >> meta;
            } catch (const std::ios_base::failure& e) {
                meta_ok = false;
                out.err = std::string("metadata: ") + e.what();
            }
            if (meta_ok) {
                auto res = T->cm().ActivateSnapshot(af, meta, in_memory);
                out.ok = bool(res);
                if (!res) out.err = util::ErrorString(res).original;
            }
        }
        out.fault_fired = ck.fired;
        out.short_reads = ck.short_reads;
        return out;
    }

    void CheckUntouched(const NodeState& pre, const std::string& where, bool with_flush)
    {
        NodeState post = Capture();
        for (auto& d : post.dir)
            if (d.find("chainstate_snapshot") != std::string::npos) ctx.failf("rejected-snapshot-left-chainstate-dir", "%s: %s is left in the data directory", where.c_str(), d.c_str());
        if (post.chainstates != pre.chainstates || post.active != pre.active || post.snapshot_height != pre.snapshot_height)
            ctx.failf("rejected-snapshot-changed-chainstates", "%s: chainstate list before [%zu, snapshot height %d] after [%zu, snapshot height %d]", where.c_str(), pre.chainstates.size(), pre.snapshot_height, post.chainstates.size(), post.snapshot_height);
        if (post.tip != pre.tip || post.height != pre.height) ctx.failf("rejected-snapshot-changed-tip", "%s: active tip height %d -> %d", where.c_str(), pre.height, post.height);
        if (post.pool != pre.pool) ctx.failf("rejected-snapshot-changed-mempool", "%s: mempool %zu -> %zu transactions", where.c_str(), pre.pool.size(), post.pool.size());
        if (post.dir != pre.dir) ctx.failf("rejected-snapshot-changed-datadir", "%s: datadir entries before [%s] after [%s]", where.c_str(), Join(pre.dir).c_str(), Join(post.dir).c_str());
        if (post.index_digest != pre.index_digest) ctx.failf("rejected-snapshot-changed-block-index", "%s: block index flags / tx counts / best header changed", where.c_str());
        if (T->Fatal()) ctx.failf("rejected-snapshot-fatal-error", "%s: %s", where.c_str(), (T->notifications->fatal_errors.empty() ? T->notifications->flush_errors[0] : T->notifications->fatal_errors[0]).c_str());
        CheckTargetUtxo("rejected-snapshot-changed-utxo", where, with_flush);
    }

    /** After a successful activation: the new active chainstate sits on the claimed base and holds exactly the committed set. */
    void CheckActivated(const uint256& claimed, const CoinSet& want, const std::string& where)
    {
        Chainstate* snapcs;
        {
            LOCK(cs_main);
            snapcs = &T->cm().CurrentChainstate();
            if (!snapcs->m_from_snapshot_blockhash || *snapcs->m_from_snapshot_blockhash != claimed || !snapcs->m_chain.Tip() || snapcs->m_chain.Tip()->GetBlockHash() != claimed)
                ctx.failf("activated-chainstate-not-on-base", "%s: active chainstate after activation is not a snapshot chainstate with its tip on the base block", where.c_str());
            for (auto& [k, c] : want) {
                const Coin& got = snapcs->CoinsTip().AccessCoin(COutPoint(Txid::FromUint256(FromArr(k.first)), k.second));
                if (got.IsSpent() || (uint64_t)got.out.nValue != c.amount || got.nHeight != c.height || (bool)got.fCoinBase != c.coinbase || Bytes(got.out.scriptPubKey.begin(), got.out.scriptPubKey.end()) != c.script)
                    ctx.failf("loaded-coin-set-differs-from-commitment", "%s: committed coin of height %u missing or different in the activated chainstate", where.c_str(), c.height);
            }
        }
        CoinSet db;
        if (!ReadDb(*snapcs, db)) ctx.failf("loaded-coin-set-differs-from-commitment", "%s: snapshot coins database unreadable", where.c_str());
        for (auto& [k, c] : db)
            if (!want.count(k)) ctx.failf("loaded-coin-set-differs-from-commitment", "%s: activated chainstate holds a coin (height %u) that is not in the committed set", where.c_str(), c.height);
    }

    // ---- operations ---------------------------------------------------------------------------------------------
    int ActiveHeight() { return T->Height(); }
    bool TargetClean() { return !t_fork && marks.empty() && pool_txs.empty() && t_hdr >= base; }

    void DoTry(const Op& op)
    {
        int src = (int)op.mod(A_SRC, 3);
        if (snap[src].empty()) src = 0;
        const int mut = (int)op.mod(A_MUT, N_MUT);
        std::string note;
        const Bytes bytes = Mutate(op, src, mut, note);
        int smode = (int)op.mod(A_STREAM, N_STREAM);
        size_t fault_at = 0;
        if (smode == S_EOF || smode == S_EIO) {
            // offsets are chosen on the unmutated layout; one past the end is allowed
            fault_at = op.arg(A_SADDR) == 4 && op.arg(A_SX) % 7 == 0 ? bytes.size() : std::min(bytes.size(), Addr((int)op.arg(A_SADDR), (uint64_t)op.arg(A_SX), (uint64_t)op.arg(A_SY), src));
        }
        const bool in_memory = op.arg(A_FLAGS) & 1;
        const bool with_flush = op.arg(A_FLAGS) & 2;
        const int active = ActiveHeight();
        const Verdict v = Judge(bytes, smode, fault_at, active, T->TipHash());
        const bool pristine = bytes == snap[0] && v.reason == R_SAME;
        const bool must_accept = pristine && TargetClean() && active < base;
        const NodeState pre = Capture();
        const Outcome out = Activate(bytes, smode, fault_at, (uint64_t)op.arg(A_SX) * 2654435761ULL + (uint64_t)op.arg(A_SY), in_memory);
        char where[400];
        snprintf(where, sizeof where, "snapshot[%s] %s%s%s stream=%s@%zu (%zu bytes) judged %s %s, target height %d", src == 0 ? "base" : src == 1 ? "base-1" : "base+1", kMutName[mut], note.empty() ? "" : " ",
                 note.c_str(), kStreamName[smode], fault_at, bytes.size(), kReasonName[v.reason], v.detail.c_str(), active);
        ctx.evf("try %s -> %s [%.60s]", where, out.ok ? "ACTIVATED" : "rejected", out.err.c_str());
        if (out.fault_fired) ctx.fault(smode == S_EOF ? "stream_eof_injected" : "stream_eio_injected");
        if (out.short_reads) ctx.fault("stream_short_reads", 1);
        if (v.conflict) ctx.probe("conflicting_duplicate_coin");
        ctx.fingerprint(mix64(mix64(v.set_fp, (uint64_t)v.reason * 131 + mut), mix64(out.ok, strhash(v.detail.substr(0, v.detail.find('@'))))));
        if (out.ok) {
            if (v.equal_work_other_tip)
                ctx.failf("activated-base-with-equal-work-to-fork-tip", "%s: ActivateSnapshot succeeded although the base block has exactly the chain work of the active tip (a block of a competing chain at the same height), not more", where);
            if (v.reason >= R_STREAM) ctx.failf(kReasonClass[v.reason], "%s: ActivateSnapshot succeeded", where);
            ++n_activated;
            ctx.probe(pristine ? "activated_unmutated" : "activated_equivalent_file");
            if (smode == S_SHORT || smode == S_SHORT_UNBUF) ctx.probe("activated_through_short_reads");
            // judged same/undecided: the loaded set must still be the committed one
            SFile f;
            Parse(bytes.size() > fault_at && (smode == S_EOF || smode == S_EIO) ? Bytes(bytes.begin(), bytes.begin() + fault_at) : bytes, f);
            const uint256 claimed = FromArr(f.base);
            CheckActivated(claimed, known[claimed].first == 0 ? committed : fork_committed, where);
            BuildTarget(t_blocks >= base ? (int)ctx.knob("h0", 0) : t_blocks);
            ctx.probe("fresh_target_after_activation"); // one snapshot per node: continue on a fresh target in the same situation
            return;
        }
        // rejected
        if (must_accept) ctx.failf("valid-snapshot-rejected", "%s: the unmutated snapshot was refused on a target with valid headers, less work and an empty mempool: %s", where, out.err.c_str());
        if (mut != M_NONE || smode == S_EOF || smode == S_EIO) ++n_rejected_mutated;
        switch (v.reason) {
        case R_SAME: case R_UNDECIDED:
            if (!pool_txs.empty()) ctx.probe("rejected_mempool_not_empty");
            else if (t_fork) ctx.probe("rejected_with_fork_known");
            else ctx.probe("rejected_equivalent_file");
            break;
        case R_STREAM: ctx.probe("rejected_stream_cut"); break;
        case R_MALFORMED:
            ctx.probe("rejected_malformed");
            if (v.detail.rfind("trailing", 0) == 0) ctx.probe("rejected_trailing_bytes");
            if (v.detail.rfind("truncated", 0) == 0) ctx.probe("rejected_truncated");
            if (v.detail.rfind("group-exceeds", 0) == 0) ctx.probe("rejected_count_mismatch");
            break;
        case R_NOT_AU: ctx.probe("rejected_non_assumeutxo_base"); break;
        case R_UNKNOWN_HDR: ctx.probe("rejected_unknown_base_header"); break;
        case R_INVALID_BASE: ctx.probe("rejected_invalid_base"); break;
        case R_WORK: ctx.probe("rejected_not_more_work"); if (t_fork_active) ctx.probe("rejected_not_more_work_than_fork_tip"); break;
        case R_SET: ctx.probe("rejected_different_set"); break;
        }
        if (out.err.rfind("Population failed", 0) == 0) ctx.probe("rejected_after_staging_chainstate");
        CheckUntouched(pre, where, with_flush);
    }

    /** The coin load of ActivateSnapshot runs without cs_main. Interleaving injected at the point where the loader announces the load
     *  (a log line, i.e. after the up-front work check): the active chain connects blocks there, as message processing would on its
     *  own thread. If the active tip has reached the base's work by the end of the load, the snapshot must not be activated. */
    void DoRace(const Op& op)
    {
        if (t_fork_active || !marks.empty() || !pool_txs.empty() || t_hdr < base || snap[0].empty()) return;
        const int active = ActiveHeight();
        if (active >= base || active != t_blocks) return;
        const int target_h = std::min<int>((int)P.size(), base - 2 + (int)op.mod(0, 6)); // base-2 .. base+3
        if (target_h <= active) return;
        // the hook fires inside the loader's first unbuffered read past the metadata and the first coin group header, i.e. after the
        // up-front work check and before the final one
        bool fired = false;
        const Outcome out = Activate(snap[0], S_SHORT_UNBUF, 0, 1, (op.arg(1) & 1) != 0, [&] { fired = true; Connect(target_h); }, /*hook_at=*/80);
        const int after = t_blocks;
        char where[300];
        snprintf(where, sizeof where, "unmutated snapshot (base %d) loaded while the active chain went from height %d to %d during the load (interleaving %s)", base, active, after, fired ? "taken" : "not reached");
        ctx.evf("race %s -> %s [%.60s]", where, out.ok ? "ACTIVATED" : "rejected", out.err.c_str());
        if (!fired) { ctx.probe("race_interleaving_point_not_reached"); }
        else ctx.probe(after >= base ? "active_chain_reached_base_during_load" : "active_chain_advanced_during_load");
        if (out.ok) {
            if (fired && after >= base) ctx.failf(kReasonClass[R_WORK], "%s: ActivateSnapshot succeeded although the active tip has at least the work of the base block", where);
            ++n_activated;
            CheckActivated(P[base - 1]->GetHash(), committed, where);
            BuildTarget(t_blocks >= base ? (int)ctx.knob("h0", 0) : t_blocks);
            return;
        }
        // refused: no trace of the snapshot may stay, the validated chainstate is intact at its (new) tip
        NodeState post = Capture();
        for (auto& d : post.dir)
            if (d.find("chainstate_snapshot") != std::string::npos) ctx.failf("rejected-snapshot-left-chainstate-dir", "%s: %s is left in the data directory", where, d.c_str());
        if (post.chainstates.size() != 1 || post.snapshot_height != -1) ctx.failf("rejected-snapshot-changed-chainstates", "%s: %zu chainstates after the refusal", where, post.chainstates.size());
        if (post.height != after) ctx.failf("rejected-snapshot-changed-tip", "%s: active tip height %d, expected %d", where, post.height, after);
        if (T->Fatal()) ctx.failf("rejected-snapshot-fatal-error", "%s", where);
        CheckTargetUtxo("rejected-snapshot-changed-utxo", where, false);
    }

    void DoMempool(const Op& op)
    {
        if (!T->mempool) return;
        if (!op.arg(0)) {
            LOCK2(cs_main, T->mempool->cs);
            for (auto& tx : pool_txs) T->mempool->removeRecursive(*tx, MemPoolRemovalReason::EXPIRY);
            ctx.evf("mempool drop -> %zu", T->mempool->size());
            pool_txs.clear();
            return;
        }
        int active = ActiveHeight();
        if (active < 100 || active > t_blocks || t_fork_active) { ctx.ev("mempool add: no mature coinbase"); return; }
        int hs = 1 + (int)op.mod(1, active - 99);
        if (spent_cb.count(hs) || MinMark() <= active) { ctx.ev("mempool add: skipped"); return; }
        const CTransaction& cb = *P[hs - 1]->vtx[0];
        CMutableTransaction tx;
        tx.version = 2;
        tx.vin.emplace_back(COutPoint(cb.GetHash(), 0));
        tx.vout.emplace_back(cb.vout[0].nValue - 10000, spk_b);
        if (chain == 0) {
            uint256 sh = SignatureHash(spk_a, tx, 0, SIGHASH_ALL, cb.vout[0].nValue, SigVersion::BASE);
            std::vector<unsigned char> sig;
            key.Sign(sh, sig);
            sig.push_back((unsigned char)SIGHASH_ALL);
            tx.vin[0].scriptSig = CScript() << sig;
        } else {
            tx.vin[0].scriptWitness.stack = {{(unsigned char)OP_TRUE}};
        }
        CTransactionRef ref = MakeTransactionRef(std::move(tx));
        auto res = WITH_LOCK(cs_main, return T->cm().ProcessTransaction(ref));
        bool ok = res.m_result_type == MempoolAcceptResult::ResultType::VALID;
        ctx.evf("mempool add spend-of-coinbase(%d) -> %d %s", hs, ok, ok ? "" : res.m_state.ToString().c_str());
        if (ok) { pool_txs.push_back(ref); spent_cb.insert(hs); ctx.probe("mempool_not_empty"); }
    }

    void DoInvalidate(const Op& op)
    {
        if (t_hdr < 1) return;
        int h;
        switch (op.mod(0, 4)) {
        case 0: h = base; break;
        case 1: h = 1 + (int)op.mod(1, std::max(1, base - 1)); break;
        case 2: h = base + 1 + (int)op.mod(1, std::max(1, extra)); break;
        default: h = 1 + (int)op.mod(1, std::max(1, t_fork_active ? base : ActiveHeight())); break;
        }
        h = std::clamp(h, 1, t_hdr);
        CBlockIndex* pi = WITH_LOCK(cs_main, return T->cm().m_blockman.LookupBlockIndex(P[h - 1]->GetHash()));
        if (!pi) return;
        BlockValidationState st;
        bool ok = T->cs().InvalidateBlock(st, pi);
        BlockValidationState st2;
        T->cs().ActivateBestChain(st2);
        T->DrainSignals();
        if (ok) marks.insert(h);
        {
            // a transaction of ours may have returned to / left the mempool with the disconnected blocks: resynchronise the model
            std::vector<CTransactionRef> keep;
            for (auto& tx : pool_txs)
                if (T->mempool->exists(tx->GetHash())) keep.push_back(tx);
            pool_txs = keep;
        }
        ctx.probe("invalidateblock");
        ctx.evf("invalidate height %d -> %d, target height %d", h, ok, ActiveHeight());
    }
    void DoReconsider(const Op& op)
    {
        if (marks.empty()) return;
        auto it = marks.begin();
        std::advance(it, op.mod(0, marks.size()));
        int h = *it;
        CBlockIndex* pi = WITH_LOCK(cs_main, return T->cm().m_blockman.LookupBlockIndex(P[h - 1]->GetHash()));
        if (!pi) return;
        {
            LOCK(cs_main);
            T->cs().ResetBlockFailureFlags(pi);
            T->cm().RecalculateBestHeader();
        }
        BlockValidationState st;
        T->cs().ActivateBestChain(st);
        T->DrainSignals();
        marks.clear(); // on a linear chain every marked block is an ancestor or a descendant of the reconsidered one
        ctx.probe("reconsiderblock");
        ctx.evf("reconsider height %d, target height %d", h, ActiveHeight());
    }

    void DoBgValidate(const Op& op)
    {
        const int corrupt = (int)op.mod(0, 5);
        if (!(TargetClean() && ActiveHeight() < base && ActiveHeight() == t_blocks)) BuildTarget(std::min<int>((int)ctx.knob("h0", 0), base - 1), /*clean=*/true);
        const NodeState pre = Capture();
        Outcome out = Activate(snap[0], S_PLAIN, 0, 1, /*in_memory=*/false);
        ctx.evf("bgvalidate: activate unmutated -> %d [%.60s]", out.ok, out.err.c_str());
        if (!out.ok) ctx.failf("valid-snapshot-rejected", "background-validation scenario: the unmutated snapshot was refused (target height %d): %s", pre.height, out.err.c_str());
        ++n_activated;
        const uint256 basehash = P[base - 1]->GetHash();
        CheckActivated(basehash, committed, "background-validation scenario");
        Chainstate *bg, *snapcs;
        {
            LOCK(cs_main);
            bg = T->cm().HistoricalChainstate();
            snapcs = &T->cm().CurrentChainstate();
        }
        if (!bg) ctx.failf("no-background-chainstate", "after activation there is no historical chainstate targeting the base block");
        const int start = t_blocks;
        const int inject_h = std::clamp(start + (int)op.mod(1, std::max(1, base - start)), std::max(start, 1), base - 1);
        const int early_h = start + (int)op.mod(2, std::max(1, base - start));
        bool corrupted = false;
        for (int h = start + 1; h <= base; ++h) {
            if (h - 1 == early_h) {
                // asking before the background chainstate has reached the base must never report success
                LOCK(cs_main);
                auto r = T->cm().MaybeValidateSnapshot(*bg, *snapcs);
                if (r == SnapshotCompletionResult::SUCCESS) ctx.failf("background-validation-success-before-base", "MaybeValidateSnapshot reported SUCCESS with the background chainstate at height %d < %d", h - 1, base);
                ctx.probe("early_validation_call_skipped");
            }
            if (corrupt && h - 1 == inject_h && !corrupted) {
                LOCK(cs_main);
                CCoinsViewCache& view = bg->CoinsTip();
                Rng r((uint64_t)op.arg(3) + 17);
                // pick an existing coin of the background chainstate (created at height <= inject_h)
                std::vector<OutKey> have;
                for (auto& [k, c] : all_coins) if ((int)c.height <= inject_h) have.push_back(k);
                if (corrupt == 1 || have.empty()) {
                    Txid32 t;
                    r.fill(t.data(), 32);
                    view.AddCoin(COutPoint(Txid::FromUint256(FromArr(t)), 0), Coin(CTxOut(12345, spk_b), std::max(1, inject_h), false), false);
                } else {
                    const OutKey& k = have[r.below(have.size())];
                    COutPoint o(Txid::FromUint256(FromArr(k.first)), k.second);
                    Coin old = view.AccessCoin(o);
                    view.SpendCoin(o);
                    if (corrupt == 2) { old.out.nValue += 1; view.AddCoin(o, std::move(old), true); }
                    if (corrupt == 4) { old.nHeight = old.nHeight > 1 ? old.nHeight - 1 : old.nHeight + 1; view.AddCoin(o, std::move(old), true); }
                }
                corrupted = true;
                ctx.fault("background_coin_corruption");
            }
            T->ProcessBlock(P[h - 1]);
            t_blocks = h;
        }
        bool success, invalid;
        int bg_height;
        {
            LOCK(cs_main);
            success = snapcs->m_assumeutxo == Assumeutxo::VALIDATED;
            invalid = snapcs->m_assumeutxo == Assumeutxo::INVALID;
            bg_height = bg->m_chain.Height();
            bg->ForceFlushStateToDisk(/*wipe_cache=*/false);
        }
        CoinSet validated;
        if (!ReadDb(*bg, validated)) SimFail("bg-db-unreadable", "");
        const bool same = validated == committed;
        const uint256 vh = SetHash(validated);
        ctx.evf("bgvalidate: corrupt=%d bg height %d success=%d invalid=%d validated-set %s fatal=%zu", corrupted ? corrupt : 0, bg_height, success, invalid, same ? "== committed" : "!= committed", T->notifications->fatal_errors.size());
        ctx.fingerprint(mix64(SetFp(validated), success * 2 + corrupted));
        if (success) {
            if (bg_height != base) ctx.failf("background-validation-success-before-base", "snapshot marked validated with the background chainstate at height %d", bg_height);
            if (!same) ctx.failf("background-validation-success-on-different-set", "snapshot marked validated although the fully validated UTXO set at the base differs from the committed one (%zu vs %zu coins)", validated.size(), committed.size());
            if (vh != U256(kCommit[chain].hash_serialized)) ctx.failf("background-validation-success-on-different-hash", "validated set hashes to %s, commitment is %s", vh.ToString().c_str(), kCommit[chain].hash_serialized);
            ctx.probe("background_validation_success");
        } else {
            if (!corrupted) ctx.failf("valid-snapshot-failed-background-validation", "blocks 1..%d were connected by the background chainstate (height %d) but the snapshot was not marked validated (invalid=%d)", base, bg_height, invalid);
            if (same) SimFail("corruption-had-no-effect", "");
            ctx.probe("background_validation_refused_corrupted_set");
        }
        BuildTarget((int)ctx.knob("h0", 0));
    }

    void DoRebuild(const Op& op)
    {
        int h0;
        switch (op.mod(0, 4)) {
        case 0: h0 = (int)ctx.knob("h0", 0); break;
        case 1: h0 = base - 1 - (int)op.mod(1, 3); break;
        case 2: h0 = 100 + (int)op.mod(1, base - 100); break;
        default: h0 = base + (int)op.mod(1, extra + 1); break;
        }
        BuildTarget(h0);
        ctx.evf("fresh target at height %d (headers %d, fork %d active %d)", ActiveHeight(), t_hdr, (int)t_fork, (int)t_fork_active);
    }

    void Run()
    {
        BuildSource();
        SetMockTime(std::chrono::seconds{now + 600});
        BuildTarget((int)ctx.knob("h0", 0));
        ctx.evf("setup chain=%d base=%d extra=%d snapshot bytes=%zu target height %d headers %d fork %d(%zu)", chain, base, extra, snap[0].size(), ActiveHeight(), t_hdr, (int)t_fork, F.size());
        for (const Op& op : ctx.plan.ops) {
            switch (op.kind) {
            case OP_TRY: DoTry(op); break;
            case OP_CONNECT: {
                int before = ActiveHeight();
                if (MinMark() == INT32_MAX) Connect(t_blocks + (int)std::clamp<int64_t>(op.arg(0), 1, 60));
                ctx.evf("connect -> target height %d", ActiveHeight());
                if (before < base && ActiveHeight() >= base) ctx.probe("target_reached_base_by_itself");
                break;
            }
            case OP_MEMPOOL: DoMempool(op); break;
            case OP_INVALIDATE: DoInvalidate(op); break;
            case OP_RECONSIDER: DoReconsider(op); break;
            case OP_BGVALIDATE: DoBgValidate(op); break;
            case OP_RACE: DoRace(op); break;
            case OP_REBUILD: DoRebuild(op); break;
            }
            if (T->Fatal() && op.kind != OP_BGVALIDATE) ctx.failf("target-fatal-error", "%s", T->notifications->fatal_errors.empty() ? T->notifications->flush_errors[0].c_str() : T->notifications->fatal_errors[0].c_str());
        }
        ctx.nontrivial = n_activated > 0 && n_rejected_mutated > 0;
        ctx.sim_ms = (uint64_t)(now + 600 - t0) * 1000;
        T->Stop(false);
    }
};

void Run(Ctx& ctx)
{
    Sim s(ctx);
    s.Run();
}

Engine MakeEngine()
{
    Engine e;
    e.prop = "C20";
    e.name = "nodesim/utxo-snapshot";
    e.level = "exploration";
    e.gen = Gen;
    e.run = Run;
    e.describe = Describe;
    e.chunk = 1;
    e.quick_runs = 560;
    e.thorough_runs = 9000;
    e.quick_budget_s = 50;
    e.thorough_budget_s = 900;
    e.run_timeout_s = 300;
    e.rule = "each run: a source node rebuilds a deterministic regtest chain whose block hash at the assumeutxo height is in m_assumeutxo_data (110: TestChain100Setup key/coinbase/mock clock through the real "
             "BlockAssembler path; 200: CreateBlockChain recipe), and dumps real snapshots at base-1, base, base+1; a target node (knobs: blocks already connected 0..base, headers known, a competing "
             "header fork known or even being the target's active chain (tip below, at or above the base height), on-disk or in-memory databases, coins cache size) then receives 60-420 operations: activation attempts of one file mutation each (27 kinds: every single-field change made "
             "through the engine's own encoder, bit flips / byte sets / truncation / insertion / deletion addressed by field class or swept over every byte of one coin record or of the metadata, appended "
             "bytes, equivalent re-encodings) read through an fopencookie stream (plain, short reads, unbuffered short reads, EOF or EIO injected at a chosen offset, or a real file), interleaved with "
             "connecting more blocks, filling/emptying the mempool, invalidateblock/reconsiderblock on and around the base, fresh targets, and 0-2 background validations (unmutated snapshot, blocks "
             "1..base fed to the background chainstate, optionally after corrupting one of its coins). The oracle decodes the bytes that reach the loader with its own decoder. non-trivial = at least one "
             "activation succeeded and at least one mutated file was rejected; distinct = distinct (decoded coin set, verdict, mutation kind, outcome) fingerprints (first 64 per run). `evaluations` "
             "counts runs; every run makes 60-420 judged activation attempts.";
    e.real_components = {"ChainstateManager::ActivateSnapshot / PopulateAndValidateSnapshot / MaybeValidateSnapshot / MaybeRebalanceCaches (validation.cpp)", "node::SnapshotMetadata (utxo_snapshot.h), FindAssumeutxoChainstateDir, WriteSnapshotBaseBlockhash",
                         "CreateUTXOSnapshot (rpc/blockchain.cpp) for the unmutated files", "Coin / TxOutCompression / ScriptCompression / VARINT / CompactSize deserialisation, AutoFile over stdio", "kernel::ComputeUTXOStats hash_serialized",
                         "CCoinsViewCache/CCoinsViewDB + LevelDB (chainstate_snapshot directory on tmpfs)", "BlockAssembler + ProcessNewBlock (chain production, background chainstate)", "CTxMemPool", "regtest CChainParams::m_assumeutxo_data"};
    e.stub_components = {"snapshot file (in-memory bytes behind fopencookie: short reads, early EOF, EIO)", "peers (headers/blocks handed over directly)", "clock (SetMockTime)", "RPC layer (loadtxoutset replaced by its two calls: metadata parse + ActivateSnapshot)"};
    e.assumptions = {"the engine's decoder of the snapshot format is correct (it is cross-checked on every run: real dumps parse, re-encode byte-identically, denote the model's UTXO(base), and that set hashes to the hard-coded commitment)",
                     "a file giving one outpoint twice with different contents, and a complete file whose end-of-file probe hits an I/O error, are 'undecided' (either outcome accepted)",
                     "work comparison by height (all regtest blocks have equal work); a base with exactly the work of an active tip on a competing chain is judged 'not more work' (own violation class "
                     "activated-base-with-equal-work-to-fork-tip, a known finding: CBlockIndexWorkComparator breaks the tie by nSequenceId / pointer)",
                     "background validation on a mismatching set is reached only by corrupting the background chainstate's coins (chain parameters cannot be changed); the commitment for height 299 cannot be reproduced (functional-test chain) and is used only as a foreign base hash"};
    e.expected_probes = {"activated_unmutated", "activated_equivalent_file", "activated_through_short_reads", "rejected_different_set", "rejected_malformed", "rejected_truncated", "rejected_trailing_bytes", "rejected_count_mismatch",
                         "rejected_stream_cut", "rejected_non_assumeutxo_base", "rejected_unknown_base_header", "rejected_invalid_base", "rejected_not_more_work", "rejected_not_more_work_than_fork_tip", "rejected_mempool_not_empty", "rejected_with_fork_known",
                         "rejected_after_staging_chainstate", "conflicting_duplicate_coin", "background_validation_success", "background_validation_refused_corrupted_set", "early_validation_call_skipped",
                         "stream_eof_injected", "stream_eio_injected", "stream_short_reads", "background_coin_corruption", "invalidateblock", "reconsiderblock", "mempool_not_empty", "target_reached_base_by_itself"};
    return e;
}
Engine g_engine = MakeEngine();
SIM_REGISTER_ENGINE(g_engine);

} // namespace
