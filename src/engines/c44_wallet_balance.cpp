// C44 — wallet balances match the chain and mempool.
// walletsim = nodesim (real regtest node + RefChain model) + a real descriptor CWallet on SQLite attached through the real
// interfaces::Chain. The workload is a chain/mempool history in which some outputs pay wallet scripts: coinbases to the wallet
// (maturing and un-maturing over reorgs), unconfirmed and confirmed receives, external double-spends of those receives, wallet
// sends (CreateTransaction + CommitTransaction), double-spends of wallet sends (signed by the wallet, never committed) that are
// replaced into the mempool or confirmed on a competing branch, chains of unconfirmed wallet sends, mempool expiry, abandon,
// wallet unload / offline chain changes / load with rescan, node restart, explicit rescans, resubmission.
// Oracle: after every operation (notification queue drained) GetBalance and AvailableCoins equal an independent recomputation
// from the MODEL's UTXO(tip) (RefChain) + the real mempool's contents for the wallet's script set.
#include "../core/sim.h"
#include "../nodesim/chainsim.h"
#include "../nodesim/walletsim.h"

#include <chain.h>
#include <consensus/validation.h>
#include <kernel/mempool_entry.h>
#include <policy/policy.h>
#include <script/interpreter.h>
#include <txmempool.h>
#include <util/time.h>
#include <validation.h>
#include <validationinterface.h>

#include <algorithm>
#include <map>
#include <set>

using namespace sim;
using namespace nodesim;

namespace {

enum WOp { W_RECEIVE = 0, W_EXT_CONFLICT, W_SEND, W_DOUBLE_SPEND, W_SPEND_EXTERNAL, W_MINE, W_REORG, W_ABANDON, W_UNLOAD, W_LOAD, W_RESTART_NODE, W_RESUBMIT, W_RESCAN, W_NEWADDR, W_CLOCK,
           W_JOINT, W_INVALIDATE, W_RECONSIDER, W_TRIM, W_NOPS };
// W_SEND flag bits
enum { SF_SELF = 1, SF_SUBTRACT = 2, SF_UNSAFE = 4, SF_FEERATE = 8, SF_CHAIN_CHANGE = 16, SF_BIG = 32, SF_CHAIN_RECEIVE = 64 };

constexpr int kMaturityDepth = 101; //!< the wallet's documented rule: a coinbase is spendable ("mature") from 101 confirmations on

std::string Describe(const Op& op)
{
    char b[256];
    switch (op.kind) {
    case W_RECEIVE: snprintf(b, sizeof b, "receive(outputs=%ld, seed=%ld, addr_mode=%ld, fee_sel=%ld)  external tx paying wallet addresses enters the mempool", (long)op.arg(0), (long)op.arg(1), (long)op.arg(2), (long)op.arg(3)); break;
    case W_EXT_CONFLICT: snprintf(b, sizeof b, "double_spend_receive(receive#%ld, %s, seed=%ld)", (long)op.arg(0), op.mod(1, 2) ? "hold for a block" : "replace in mempool", (long)op.arg(2)); break;
    case W_SEND: {
        std::string f;
        static const char* names[] = {"self-recipient", "subtract-fee", "include-unsafe", "explicit-feerate", "on-own-unconfirmed-change", "big", "on-unconfirmed-receive"};
        for (int i = 0; i < 7; ++i)
            if (op.arg(2) & (1 << i)) f += std::string(f.empty() ? "" : "|") + names[i];
        snprintf(b, sizeof b, "wallet_send(recipients=%ld, seed=%ld, flags=%s, change_type=%ld)", (long)op.arg(0), (long)op.arg(1), f.empty() ? "-" : f.c_str(), (long)op.arg(3));
        break;
    }
    case W_DOUBLE_SPEND: {
        static const char* m[] = {"hold for a block", "submit to mempool", "commit through the wallet"};
        snprintf(b, sizeof b, "double_spend_wallet_send(send#%ld, %s, seed=%ld)", (long)op.arg(0), m[op.mod(1, 3)], (long)op.arg(2));
        break;
    }
    case W_SPEND_EXTERNAL: snprintf(b, sizeof b, "spend_wallet_coins_externally(seed=%ld)  signed by the wallet, not committed, submitted to the node", (long)op.arg(0)); break;
    case W_MINE: snprintf(b, sizeof b, "mine(blocks=%ld, seed=%ld, include_sel=%ld, coinbase_to_wallet_bits=%ld, held_pct=%ld)", (long)op.arg(0), (long)op.arg(1), (long)op.arg(2), (long)op.arg(3), (long)op.arg(4)); break;
    case W_REORG: snprintf(b, sizeof b, "reorg(depth=%ld, extra=%ld, seed=%ld, reinclude_sel=%ld, coinbase_to_wallet_bits=%ld, order=%ld)", (long)op.arg(0), (long)op.arg(1), (long)op.arg(2), (long)op.arg(3), (long)op.arg(4), (long)op.arg(5)); break;
    case W_ABANDON: snprintf(b, sizeof b, "abandontransaction(inactive#%ld)", (long)op.arg(0)); break;
    case W_UNLOAD: snprintf(b, sizeof b, "unloadwallet"); break;
    case W_LOAD: snprintf(b, sizeof b, "loadwallet (rescan from the stored locator)"); break;
    case W_RESTART_NODE: snprintf(b, sizeof b, "restart node (mempool lost) and reload wallet"); break;
    case W_RESUBMIT: snprintf(b, sizeof b, "resubmit wallet transactions"); break;
    case W_RESCAN: snprintf(b, sizeof b, "rescanblockchain(last %ld blocks)", (long)op.arg(0)); break;
    case W_NEWADDR: snprintf(b, sizeof b, "getnewaddress(type=%ld)", (long)op.arg(0)); break;
    case W_JOINT: snprintf(b, sizeof b, "joint_transaction(seed=%ld)  one wallet input + one input of a stranger, both sign, submitted to the node", (long)op.arg(0)); break;
    case W_INVALIDATE: snprintf(b, sizeof b, "invalidateblock(tip-%ld)", (long)op.arg(0)); break;
    case W_RECONSIDER: snprintf(b, sizeof b, "reconsiderblock"); break;
    case W_TRIM: snprintf(b, sizeof b, "mempool full: trim to %ld%% of its size", (long)op.arg(0)); break;
    case W_CLOCK: snprintf(b, sizeof b, "clock += %lds%s", (long)op.arg(0), op.arg(0) >= 3600 ? " then an unrelated transaction enters the mempool (expiry runs)" : ""); break;
    default: snprintf(b, sizeof b, "?");
    }
    return b;
}

Plan Gen(uint64_t seed, Tier tier)
{
    Rng rng(seed);
    Plan p;
    p.knobs["base"] = rng.range(101, 116);
    p.knobs["on_disk"] = rng.chance(1, 4);
    p.knobs["coins_cache_kb"] = 8192;
    p.knobs["batch_bytes"] = 16 << 20;
    p.knobs["cb_wallet_pct"] = rng.range(25, 85);
    p.knobs["keypool"] = rng.range(2, 9);
    p.knobs["expiry_h"] = rng.chance(1, 2) ? rng.range(1, 4) : 336;
    p.knobs["naddr"] = rng.range(3, 7);
    p.knobs["wallet_seed"] = (int64_t)(rng.next() >> 8);
    p.knobs["unsafe_sync"] = rng.chance(1, 2);
    std::vector<uint32_t> w(W_NOPS, 0);
    w[W_RECEIVE] = 13; w[W_EXT_CONFLICT] = 4; w[W_SEND] = 18; w[W_DOUBLE_SPEND] = 10; w[W_SPEND_EXTERNAL] = 3; w[W_MINE] = 15; w[W_REORG] = 9;
    w[W_ABANDON] = 6; w[W_UNLOAD] = 2; w[W_LOAD] = 3; w[W_RESTART_NODE] = p.knobs["on_disk"] ? 2 : 0; w[W_RESUBMIT] = 2; w[W_RESCAN] = 2; w[W_NEWADDR] = 2; w[W_CLOCK] = 5;
    w[W_JOINT] = 3; w[W_INVALIDATE] = 2; w[W_RECONSIDER] = 2; w[W_TRIM] = 2;
    // swarm: drop some operation kinds per run
    if (rng.chance(1, 2)) { w[W_UNLOAD] = 0; w[W_LOAD] = 0; w[W_RESTART_NODE] = 0; }
    if (rng.chance(1, 4)) w[W_ABANDON] = 0;
    if (rng.chance(1, 4)) w[W_RESUBMIT] = 0;
    if (rng.chance(1, 5)) w[W_RECEIVE] = 3;
    if (rng.chance(1, 3)) w[W_REORG] = 16;
    if (rng.chance(1, 3)) w[W_DOUBLE_SPEND] = 18;
    if (rng.chance(1, 3)) { w[W_INVALIDATE] = 0; w[W_RECONSIDER] = 0; }
    if (rng.chance(1, 3)) w[W_TRIM] = 0;
    int nops = (int)rng.range(18, tier == Tier::THOROUGH ? 90 : 44);
    auto R64 = [&] { return (int64_t)(rng.next() >> 16); };
    for (int i = 0; i < nops; ++i) {
        // scenario seeds: short scripted sequences of ordinary operations that set up the situations the property is about
        // (they are plain ops: shrinking and replay treat them like any other)
        if (rng.chance(1, 9)) {
            std::vector<Op> m;
            const int64_t held_all = 2, inc_all = 0, inc_none = 4;
            switch (rng.below(8)) {
            case 0: // descendant of a conflicted send: send, send chained on its change, double-spend of the first confirmed
                m = {Op(W_SEND, {1, R64(), SF_FEERATE, 0}), Op(W_SEND, {2, R64(), SF_CHAIN_CHANGE | SF_BIG, 3}), Op(W_DOUBLE_SPEND, {1, 0, R64()}), Op(W_MINE, {1, R64(), inc_all, (int64_t)rng.below(2), held_all})};
                break;
            case 1: // the conflict goes away again: ... reorg to a branch without the double-spend, which then expires from the mempool
                m = {Op(W_SEND, {1, R64(), 0, 0}), Op(W_DOUBLE_SPEND, {0, 0, R64()}), Op(W_MINE, {1, R64(), inc_all, 0, held_all}), Op(W_REORG, {1, 1, R64(), inc_none, (int64_t)rng.below(4), 0}),
                     Op(W_CLOCK, {(int64_t)rng.range(5 * 3600, 7 * 3600)})};
                p.knobs["expiry_h"] = rng.range(1, 4);
                break;
            case 2: // abandon a chain of expired sends
                m = {Op(W_SEND, {1, R64(), 0, 0}), Op(W_SEND, {2, R64(), SF_CHAIN_CHANGE | SF_BIG, 0}), Op(W_CLOCK, {(int64_t)rng.range(5 * 3600, 7 * 3600)}), Op(W_ABANDON, {(int64_t)rng.below(3)})};
                p.knobs["expiry_h"] = rng.range(1, 4);
                break;
            case 3: // a send built on an unconfirmed receive whose payer double-spends it in a block
                m = {Op(W_RECEIVE, {2, R64(), 0, 1}), Op(W_SEND, {1, R64(), SF_CHAIN_RECEIVE | SF_BIG, 0}), Op(W_EXT_CONFLICT, {0, 1, R64()}), Op(W_MINE, {1, R64(), inc_all, 0, held_all})};
                break;
            case 4: // joint transaction and a send that spends its output
                m = {Op(W_RECEIVE, {1, R64(), 0, 1}), Op(W_JOINT, {R64()}), Op(W_SEND, {1, R64(), SF_UNSAFE | SF_BIG, 0})};
                break;
            case 5: // the tip goes down without a replacement
                m = {Op(W_INVALIDATE, {(int64_t)rng.range(1, 3)}), Op(W_SEND, {1, R64(), 0, 0}), Op(W_RECONSIDER, {})};
                break;
            case 6: // double-spend confirmed on a competing branch only
                m = {Op(W_SEND, {2, R64(), 0, 0}), Op(W_MINE, {1, R64(), inc_all, 1, 0}), Op(W_DOUBLE_SPEND, {0, 0, R64()}), Op(W_REORG, {(int64_t)rng.range(1, 3), 1, R64(), (int64_t)rng.below(5), (int64_t)rng.below(16), 0})};
                break;
            default: // offline reorg
                m = {Op(W_SEND, {1, R64(), 0, 0}), Op(W_MINE, {1, R64(), inc_all, 1, 0}), Op(W_UNLOAD, {}), Op(W_REORG, {(int64_t)rng.range(1, 3), 1, R64(), (int64_t)rng.below(5), (int64_t)rng.below(16), 0}), Op(W_LOAD, {})};
                break;
            }
            for (auto& o : m) p.ops.push_back(o);
        }
        Op op;
        op.kind = (int)rng.pick(w);
        switch (op.kind) {
        case W_RECEIVE: op.a = {(int64_t)rng.range(1, 3), (int64_t)(rng.next() >> 16), (int64_t)rng.below(4), (int64_t)rng.below(4)}; break;
        case W_EXT_CONFLICT: op.a = {(int64_t)rng.below(8), (int64_t)rng.below(2), (int64_t)(rng.next() >> 16)}; break;
        case W_SEND: op.a = {(int64_t)rng.range(1, 3), (int64_t)(rng.next() >> 16), (int64_t)(rng.below(64) | (rng.chance(1, 6) ? SF_CHAIN_RECEIVE : 0)), (int64_t)rng.below(5)}; break;
        case W_DOUBLE_SPEND: op.a = {(int64_t)rng.skewed(0, 6), (int64_t)rng.pick({5, 3, 2}), (int64_t)(rng.next() >> 16)}; break;
        case W_SPEND_EXTERNAL: op.a = {(int64_t)(rng.next() >> 16)}; break;
        case W_MINE: op.a = {(int64_t)rng.skewed(1, 3), (int64_t)(rng.next() >> 16), (int64_t)rng.below(5), (int64_t)rng.below(8), (int64_t)rng.pick({3, 2, 2})}; break;
        case W_REORG: op.a = {(int64_t)rng.skewed(1, 5), (int64_t)rng.range(1, 2), (int64_t)(rng.next() >> 16), (int64_t)rng.below(5), (int64_t)rng.below(64), (int64_t)rng.below(3)}; break;
        case W_ABANDON: op.a = {(int64_t)rng.below(8)}; break;
        case W_RESCAN: op.a = {(int64_t)rng.skewed(1, 30)}; break;
        case W_NEWADDR: op.a = {(int64_t)rng.below(4)}; break;
        case W_CLOCK: op.a = {(int64_t)(rng.chance(1, 2) ? rng.range(3600, 6 * 3600) : rng.skewed(1, 3000))}; break;
        case W_JOINT: op.a = {R64()}; break;
        case W_INVALIDATE: op.a = {(int64_t)rng.skewed(1, 3)}; break;
        case W_TRIM: op.a = {(int64_t)rng.pick({2, 3, 3, 1}) * 25}; break;
        default: break;
        }
        p.ops.push_back(op);
    }
    return p;
}

// ---------------------------------------------------------------------------------------------------------------------------

/** What the node told its validation-interface clients (the environment's input to the wallet), in order. */
struct Recorder : public CValidationInterface {
    enum Kind { TX_ADDED, TX_REMOVED, BLOCK_CONNECTED, BLOCK_DISCONNECTED };
    struct Ev { Kind kind; CTransactionRef tx; std::shared_ptr<const CBlock> block; MemPoolRemovalReason reason{MemPoolRemovalReason::EXPIRY}; };
    std::vector<Ev> evs;
    void TransactionAddedToMempool(const NewMempoolTransactionInfo& tx, uint64_t) override { evs.push_back({TX_ADDED, tx.info.m_tx, nullptr}); }
    void TransactionRemovedFromMempool(const CTransactionRef& tx, MemPoolRemovalReason reason, uint64_t) override { evs.push_back({TX_REMOVED, tx, nullptr, reason}); }
    void BlockConnected(const kernel::ChainstateRole&, const std::shared_ptr<const CBlock>& block, const CBlockIndex*) override { evs.push_back({BLOCK_CONNECTED, nullptr, block}); }
    void BlockDisconnected(const std::shared_ptr<const CBlock>& block, const CBlockIndex*) override { evs.push_back({BLOCK_DISCONNECTED, nullptr, block}); }
};

std::string Hx(const uint256& h) { return h.ToString().substr(0, 10); }
std::string Hx(const Txid& h) { return h.ToString().substr(0, 10); }

struct WalletSim {
    Ctx& ctx;
    ChainSim cs;
    std::shared_ptr<Recorder> rec{std::make_shared<Recorder>()};
    std::unique_ptr<WalletNode> wn;
    std::shared_ptr<wallet::CWallet> w;
    const std::string wname{"w0"};

    // ---- model ----
    enum St { CONF, POOL, CCONF, MCONF, ABANDONED, INACTIVE };
    struct KTx {
        CTransactionRef tx;
        bool abandoned{false};
        int seq{0};
        bool committed_conflicted{false}; //!< handed to CommitTransaction when an ancestor was already conflicted by the chain (see Check)
        bool committed_mconf{false};      //!< handed to CommitTransaction while a mempool transaction already spent one of its inputs
    };
    std::set<CScript> S;                               //!< the wallet's scripts: every address handed out + every change script the wallet reported
    std::map<Txid, KTx> K;                             //!< wallet-relevant transactions the wallet has been told about
    std::vector<Txid> korder;
    std::map<COutPoint, std::vector<Txid>> kspenders;  //!< outpoint -> K transactions spending it
    bool loaded{false};
    int unload_tip{0};

    // ---- generator state ----
    struct Addr { CTxDestination dest; CScript spk; };
    std::vector<Addr> addrs;
    struct ExtReceive { CTransactionRef tx; std::vector<TxIn> ins; };
    std::vector<ExtReceive> ext_receives;
    std::vector<CTransactionRef> held;                 //!< signed conflicting transactions waiting for a block
    std::vector<Txid> sends;                           //!< wallet-signed transactions (committed or not)
    std::vector<COutPoint> own_change;
    CAmount last_spendable{0};
    int invalidated{-1};                               //!< ref index of the manually invalidated block (at most one at a time)
    int64_t start_time{0};
    int reorgs{0};

    explicit WalletSim(Ctx& c) : ctx(c), cs(c, ChainSimConfig{}) {}

    RefChain& ref() { return *cs.ref; }
    SimNode& node() { return *cs.node; }
    bool IsMineSpk(const CScript& s) const { return S.count(s) > 0; }

    // ======================================================= model: K ======================================================
    bool Relevant(const CTransaction& tx) const
    {
        for (auto& o : tx.vout)
            if (IsMineSpk(o.scriptPubKey)) return true;
        for (auto& in : tx.vin) {
            auto it = K.find(in.prevout.hash);
            if (it != K.end() && in.prevout.n < it->second.tx->vout.size() && IsMineSpk(it->second.tx->vout[in.prevout.n].scriptPubKey)) return true;
        }
        return false;
    }
    /** The wallet keeps a transaction it was shown iff it pays a wallet script or spends a wallet coin it knows. */
    bool KSee(const CTransactionRef& tx)
    {
        auto it = K.find(tx->GetHash());
        if (it != K.end()) { it->second.abandoned = false; return true; }
        if (!Relevant(*tx)) return false;
        K[tx->GetHash()] = KTx{tx, false, (int)korder.size()};
        korder.push_back(tx->GetHash());
        if (!tx->IsCoinBase())
            for (auto& in : tx->vin) kspenders[in.prevout].push_back(tx->GetHash());
        return true;
    }
    void ClearAbandonedWithDescendants(const Txid& id)
    {
        std::vector<Txid> todo{id};
        std::set<Txid> done;
        while (!todo.empty()) {
            Txid now = todo.back();
            todo.pop_back();
            if (!done.insert(now).second) continue;
            auto it = K.find(now);
            if (it == K.end()) continue;
            it->second.abandoned = false;
            for (uint32_t n = 0; n < it->second.tx->vout.size(); ++n) {
                auto sp = kspenders.find(COutPoint(now, n));
                if (sp != kspenders.end())
                    for (auto& c : sp->second) todo.push_back(c);
            }
        }
    }
    /** A block joined the active chain (or is rescanned): its transactions become known; wallet transactions that conflict with
     *  them stop being "abandoned" (they are conflicted now and plain inactive once the conflict goes away). */
    void KBlockConnected(const CBlock& b)
    {
        for (auto& tx : b.vtx) {
            if (!tx->IsCoinBase())
                for (auto& in : tx->vin) {
                    auto sp = kspenders.find(in.prevout);
                    if (sp == kspenders.end()) continue;
                    std::vector<Txid> others = sp->second;
                    for (auto& o : others)
                        if (o != tx->GetHash()) ClearAbandonedWithDescendants(o);
                }
            KSee(tx);
        }
    }
    void KBlockDisconnected(const CBlock& b)
    {
        for (size_t i = 0; i < b.vtx.size(); ++i) {
            if (!KSee(b.vtx[i])) continue;
            // a disconnected coinbase is recorded as abandoned (it can never be relayed); it has no inputs and is not in the
            // chain, so the flag has no effect on any coin
            K[b.vtx[i]->GetHash()].abandoned = (i == 0);
        }
    }
    void Absorb()
    {
        std::vector<Recorder::Ev> evs;
        evs.swap(rec->evs);
        if (!loaded) return;
        for (auto& e : evs) {
            switch (e.kind) {
            case Recorder::TX_ADDED: KSee(e.tx); break;
            case Recorder::TX_REMOVED:
                if (e.reason == MemPoolRemovalReason::EXPIRY) ctx.probe("mempool_expiry");
                if (e.reason == MemPoolRemovalReason::SIZELIMIT && K.count(e.tx->GetHash())) ctx.probe("wallet_tx_evicted_for_size");
                if (e.reason == MemPoolRemovalReason::REPLACED && K.count(e.tx->GetHash())) ctx.probe("wallet_tx_replaced_in_mempool");
                if (e.reason == MemPoolRemovalReason::CONFLICT && K.count(e.tx->GetHash())) ctx.probe("wallet_tx_removed_for_block_conflict");
                if (e.reason == MemPoolRemovalReason::REORG && K.count(e.tx->GetHash())) ctx.probe("wallet_tx_removed_for_reorg");
                break;
            case Recorder::BLOCK_CONNECTED: KBlockConnected(*e.block); break;
            case Recorder::BLOCK_DISCONNECTED: KBlockDisconnected(*e.block); break;
            }
        }
    }

    // ================================================ model: chain + mempool view ==========================================
    struct View {
        int tip{0};
        int height{0};
        const RefUtxo* utxo{nullptr};
        std::map<Txid, int> conf;                      //!< transactions of the active chain -> height
        std::map<COutPoint, Txid> chain_spender;
        std::map<Txid, CTransactionRef> pool;
        std::map<COutPoint, Txid> pool_spender;
        std::map<Txid, St> status;
        std::map<Txid, int> conflicts;                 //!< memo: bit 0 = conflicted by the chain, bit 1 = conflicted by the mempool (own inputs or an ancestor's)
        std::map<Txid, int> trusted;                   //!< memo for mempool transactions
    };
    View MakeView()
    {
        View v;
        v.tip = cs.TipIdx();
        if (v.tip < 0) ctx.failf("sim-tip-unknown", "the node's tip %s is not a generated block", Hx(node().TipHash()).c_str());
        const RefBlock& T = ref().blocks[v.tip];
        if (T.verdict != Verdict::VALID) ctx.failf("invalid-block-in-active-chain", "tip #%d is not valid per the model: %s", v.tip, T.reason.c_str());
        v.height = T.height;
        v.utxo = T.utxo.get();
        for (int i = v.tip; i > 0; i = ref().blocks[i].parent) {
            const RefBlock& B = ref().blocks[i];
            for (auto& tx : B.block->vtx) {
                v.conf[tx->GetHash()] = B.height;
                if (!tx->IsCoinBase())
                    for (auto& in : tx->vin) v.chain_spender[in.prevout] = tx->GetHash();
            }
        }
        for (auto& info : node().pool().infoAll()) {
            v.pool[info.tx->GetHash()] = info.tx;
            for (auto& in : info.tx->vin) v.pool_spender[in.prevout] = info.tx->GetHash();
        }
        return v;
    }
    /** Conflicts of a known transaction that is neither in the chain nor in the mempool: one of its inputs, or of the inputs of an
     *  ancestor that is itself neither confirmed nor in the mempool, is spent by another transaction of the chain (bit 0) / of the
     *  mempool (bit 1). Independent of "abandoned": an abandoned ancestor passes its conflicts on all the same. */
    int Conflicts(View& v, const Txid& id)
    {
        auto m = v.conflicts.find(id);
        if (m != v.conflicts.end()) return m->second;
        int c = 0;
        const KTx& k = K.at(id);
        if (!v.conf.count(id) && !v.pool.count(id) && !k.tx->IsCoinBase())
            for (auto& in : k.tx->vin) {
                auto a = v.chain_spender.find(in.prevout);
                if (a != v.chain_spender.end() && a->second != id) c |= 1;
                auto b = v.pool_spender.find(in.prevout);
                if (b != v.pool_spender.end() && b->second != id) c |= 2;
                if (K.count(in.prevout.hash)) c |= Conflicts(v, in.prevout.hash);
            }
        v.conflicts[id] = c;
        return c;
    }
    St Status(View& v, const Txid& id)
    {
        auto m = v.status.find(id);
        if (m != v.status.end()) return m->second;
        St s;
        const KTx& k = K.at(id);
        if (v.conf.count(id)) s = CONF;
        else if (v.pool.count(id)) s = POOL;
        else {
            int c = Conflicts(v, id);
            s = (c & 1) ? CCONF : k.abandoned ? ABANDONED : (c & 2) ? MCONF : INACTIVE;
        }
        v.status[id] = s;
        return s;
    }
    /** A coin is held back by the wallet while one of its own (known) transactions that is neither confirmed, in the mempool,
     *  conflicted nor abandoned spends it. Returns 0 = free, 1 = held back, 2 = either answer is acceptable: the spender conflicts with
     *  a mempool transaction that was there BEFORE the spender was committed; the wallet notices mempool conflicts when the
     *  conflicting transaction arrives (or at the next load), and the property says nothing about mempool conflicts. */
    int Reserved(View& v, const COutPoint& op)
    {
        auto sp = kspenders.find(op);
        if (sp == kspenders.end()) return 0;
        int r = 0;
        for (auto& t : sp->second) {
            St s = Status(v, t);
            if (s == INACTIVE) return 1;
            if (s == MCONF && K.at(t).committed_mconf) r = 2;
        }
        return r;
    }
    /** Statement's rule for unconfirmed transactions: trusted iff in the mempool and every input is a wallet coin whose own
     *  transaction is confirmed or, recursively, trusted. */
    bool TrustedPoolTx(View& v, const Txid& id)
    {
        auto m = v.trusted.find(id);
        if (m != v.trusted.end()) return m->second != 0;
        v.trusted[id] = 0;
        const CTransaction& tx = *v.pool.at(id);
        bool ok = true;
        for (auto& in : tx.vin) {
            auto p = v.pool.find(in.prevout.hash);
            if (p != v.pool.end()) {
                if (in.prevout.n >= p->second->vout.size() || !IsMineSpk(p->second->vout[in.prevout.n].scriptPubKey) || !TrustedPoolTx(v, in.prevout.hash)) { ok = false; break; }
            } else {
                auto c = v.utxo->find(in.prevout);
                if (c == v.utxo->end() || !IsMineSpk(c->second.spk)) { ok = false; break; }
            }
        }
        v.trusted[id] = ok;
        return ok;
    }

    struct MCoin { COutPoint op; CAmount value; CScript spk; int depth; bool safe; bool immature; int reserved; };
    std::vector<MCoin> ModelCoins(View& v)
    {
        std::vector<MCoin> out;
        for (auto& [op, c] : *v.utxo) {
            if (!IsMineSpk(c.spk)) continue;
            if (v.pool_spender.count(op)) continue;
            int depth = v.height - c.height + 1;
            out.push_back({op, c.value, c.spk, depth, true, c.coinbase && depth < kMaturityDepth, Reserved(v, op)});
        }
        for (auto& [id, tx] : v.pool)
            for (uint32_t n = 0; n < tx->vout.size(); ++n) {
                if (!IsMineSpk(tx->vout[n].scriptPubKey)) continue;
                COutPoint op(id, n);
                if (v.pool_spender.count(op)) continue;
                out.push_back({op, tx->vout[n].nValue, tx->vout[n].scriptPubKey, 0, TrustedPoolTx(v, id), false, Reserved(v, op)});
            }
        std::sort(out.begin(), out.end(), [](const MCoin& a, const MCoin& b) { return a.op < b.op; });
        return out;
    }

    static const char* StName(St s)
    {
        static const char* n[] = {"confirmed", "in-mempool", "conflicted-by-chain", "conflicted-by-mempool", "abandoned", "inactive"};
        return n[s];
    }
    std::string SpendersText(View& v, const COutPoint& op)
    {
        std::string s;
        auto sp = kspenders.find(op);
        if (sp != kspenders.end())
            for (auto& t : sp->second) s += " " + Hx(t) + "[model:" + StName(Status(v, t)) + " wallet:" + wn->TxStateString(*w, t) + "]";
        auto a = v.chain_spender.find(op);
        if (a != v.chain_spender.end()) s += " chain-spender=" + Hx(a->second);
        auto b = v.pool_spender.find(op);
        if (b != v.pool_spender.end()) s += " mempool-spender=" + Hx(b->second);
        return s.empty() ? " none" : s;
    }

    // ====================================================== the oracle =====================================================
    void Check(const std::string& where)
    {
        node().DrainSignals();
        if (node().Fatal()) ctx.failf("node-fatal-error", "%s", where.c_str());
        if (!loaded) { Absorb(); return; }
        Absorb();
        View v = MakeView();
        std::vector<MCoin> coins = ModelCoins(v);
        CAmount tr_all = 0, pend_all = 0, imm_all = 0, tr_def = 0, pend_def = 0, imm_def = 0, tr_opt = 0, pend_opt = 0, imm_opt = 0;
        std::vector<const MCoin*> want_safe, want_all; // reserved == 2: may or may not be listed
        for (auto& c : coins) {
            CAmount *a, *d, *o;
            if (c.immature) { a = &imm_all; d = &imm_def; o = &imm_opt; }
            else if (c.safe) { a = &tr_all; d = &tr_def; o = &tr_opt; }
            else { a = &pend_all; d = &pend_def; o = &pend_opt; }
            *a += c.value;
            if (c.reserved == 0) *d += c.value;
            if (c.reserved == 2) { *o += c.value; ctx.probe("coin_of_late_mempool_conflicted_tx_undecided"); }
            if (!c.immature && c.reserved != 1 && c.value >= 1) {
                want_all.push_back(&c);
                if (c.safe) want_safe.push_back(&c);
            }
        }
        // (1) getbalances view: coins spent only by wallet transactions that are not in the mempool still count
        wallet::Balance ball = wn->GetBalance(*w, /*include_nonmempool=*/true);
        // (2) default GetBalance: such coins are left out
        wallet::Balance bdef = wn->GetBalance(*w, /*include_nonmempool=*/false);
        ctx.evf("chk tip=#%d h=%d pool=%zu K=%zu | trusted=%ld pending=%ld immature=%ld | wallet %ld %ld %ld | excl-nonmempool %ld/%ld", v.tip, v.height, v.pool.size(), K.size(), (long)tr_all, (long)pend_all, (long)imm_all,
                (long)ball.m_mine_trusted, (long)ball.m_mine_untrusted_pending, (long)ball.m_mine_immature, (long)tr_def, (long)bdef.m_mine_trusted);
        // A transaction committed through the wallet AFTER the chain had conflicted one of its ancestors is conflicted by the chain in
        // the statement's sense; if the wallet still treats it as a live unconfirmed transaction, name that precisely.
        bool late = false;
        for (auto& id : korder) {
            const KTx& k = K.at(id);
            if (k.committed_conflicted && Status(v, id) == CCONF && wn->TxStateString(*w, id).rfind("Inactive(abandoned=0)", 0) == 0) late = true;
        }
        const char* kLateClass = "tx-committed-after-ancestor-was-conflicted-keeps-coins-reserved";
        auto diag = [&]() {
            std::string s;
            int n = 0;
            for (auto it = korder.rbegin(); it != korder.rend() && n < 6; ++it, ++n) s += " " + Hx(*it) + "[model:" + StName(Status(v, *it)) + " wallet:" + wn->TxStateString(*w, *it) + "]";
            return s;
        };
        if (ball.m_mine_trusted != tr_all)
            ctx.failf("balance-trusted-mismatch", "%s: wallet trusted %ld, chain+mempool give %ld (tip h=%d); recent wallet txs:%s", where.c_str(), (long)ball.m_mine_trusted, (long)tr_all, v.height, diag().c_str());
        if (ball.m_mine_untrusted_pending != pend_all)
            ctx.failf("balance-untrusted-pending-mismatch", "%s: wallet untrusted_pending %ld, chain+mempool give %ld; recent wallet txs:%s", where.c_str(), (long)ball.m_mine_untrusted_pending, (long)pend_all, diag().c_str());
        if (ball.m_mine_immature != imm_all)
            ctx.failf("balance-immature-mismatch", "%s: wallet immature %ld, chain gives %ld (tip h=%d)", where.c_str(), (long)ball.m_mine_immature, (long)imm_all, v.height);
        // (3) spendable coins: safe ones, and all including untrusted unconfirmed ones (checked before (2): a missing or extra coin names the clause better)
        for (int pass = 0; pass < 2; ++pass) {
            std::vector<WalletCoin> got = wn->AvailableCoins(*w, /*include_unsafe=*/pass == 1);
            const std::vector<const MCoin*>& want = pass ? want_all : want_safe;
            size_t i = 0, j = 0;
            const char* which = pass ? "AvailableCoins(include_unsafe)" : "AvailableCoins";
            while (i < got.size() || j < want.size()) {
                if (j >= want.size() || (i < got.size() && got[i].outpoint < want[j]->op)) {
                    const WalletCoin& g = got[i];
                    bool in_utxo = v.utxo->count(g.outpoint) > 0;
                    const char* cls = "spendable-coin-unexpected";
                    if (!in_utxo && !v.pool.count(g.outpoint.hash)) cls = "spendable-coin-not-in-chain-or-mempool";
                    else if (v.pool_spender.count(g.outpoint)) cls = "spendable-coin-spent-in-mempool";
                    else if (Reserved(v, g.outpoint) == 1) cls = "spendable-coin-spent-by-inactive-wallet-tx";
                    ctx.failf(cls, "%s: %s lists %s:%u (value %ld, depth %d) which the model does not; its tx: %s; spenders:%s", where.c_str(), which, Hx(g.outpoint.hash).c_str(), g.outpoint.n, (long)g.txout.nValue, g.depth,
                              wn->TxStateString(*w, g.outpoint.hash).c_str(), SpendersText(v, g.outpoint).c_str());
                }
                if (i >= got.size() || want[j]->op < got[i].outpoint) {
                    const MCoin& m = *want[j];
                    if (m.reserved == 2) { ++j; continue; }
                    const char* cls = "spendable-coin-missing";
                    if (late) cls = kLateClass;
                    auto sp = kspenders.find(m.op);
                    if (sp != kspenders.end() && !sp->second.empty()) {
                        bool all_cc = true, any_ab = false;
                        for (auto& t : sp->second) { St s = Status(v, t); if (s != CCONF) all_cc = false; if (s == ABANDONED) any_ab = true; }
                        if (late) cls = kLateClass;
                        else if (all_cc) cls = "conflicted-tx-coin-not-restored";
                        else if (any_ab) cls = "abandoned-tx-coin-not-restored";
                    }
                    ctx.failf(cls, "%s: %s lacks %s:%u (value %ld, depth %d, %s) which chain+mempool make spendable; its tx: %s; spenders:%s", where.c_str(), which, Hx(m.op.hash).c_str(), m.op.n, (long)m.value, m.depth,
                              m.safe ? "safe" : "unsafe", wn->TxStateString(*w, m.op.hash).c_str(), SpendersText(v, m.op).c_str());
                }
                const WalletCoin& g = got[i];
                const MCoin& m = *want[j];
                if (g.txout.nValue != m.value || g.txout.scriptPubKey != m.spk || g.depth != m.depth || g.safe != m.safe)
                    ctx.failf("spendable-coin-differs", "%s: %s %s:%u wallet(value=%ld depth=%d safe=%d) model(value=%ld depth=%d safe=%d)", where.c_str(), which, Hx(m.op.hash).c_str(), m.op.n, (long)g.txout.nValue, g.depth, (int)g.safe,
                              (long)m.value, m.depth, (int)m.safe);
                ++i;
                ++j;
            }
        }
        // (2) default GetBalance: the same sums without the coins that inactive wallet transactions hold back
        auto within = [](CAmount x, CAmount lo, CAmount extra) { return x >= lo && x <= lo + extra; };
        if (!within(bdef.m_mine_trusted, tr_def, tr_opt) || !within(bdef.m_mine_untrusted_pending, pend_def, pend_opt) || !within(bdef.m_mine_immature, imm_def, imm_opt))
            ctx.failf(late ? kLateClass : "balance-excluding-nonmempool-spends-mismatch", "%s: wallet %ld/%ld/%ld, model %ld/%ld/%ld (trusted/pending/immature, leaving out coins spent by the wallet's own inactive transactions); recent wallet txs:%s", where.c_str(),
                      (long)bdef.m_mine_trusted, (long)bdef.m_mine_untrusted_pending, (long)bdef.m_mine_immature, (long)tr_def, (long)pend_def, (long)imm_def, diag().c_str());
        last_spendable = tr_def;
        // reach probes + fingerprint
        uint64_t fp = mix64(ref().blocks[v.tip].hash.GetUint64(0), (uint64_t)tr_all ^ ((uint64_t)pend_all << 1) ^ ((uint64_t)imm_all << 2));
        bool any_cc = false;
        for (auto& id : korder) {
            St s = Status(v, id);
            fp = mix64(fp, (uint64_t)s + 7);
            if (s == CCONF) {
                any_cc = true;
                const KTx& k = K.at(id);
                bool direct = false;
                for (auto& in : k.tx->vin) { auto a = v.chain_spender.find(in.prevout); if (a != v.chain_spender.end() && a->second != id) direct = true; }
                if (!direct) ctx.probe("conflicted_via_ancestor");
            }
            if (s == MCONF) ctx.probe("wallet_tx_conflicted_by_mempool");
            if (s == INACTIVE && !K.at(id).tx->IsCoinBase()) ctx.probe("inactive_wallet_tx_reserving_coins");
            if (s == ABANDONED && !K.at(id).tx->IsCoinBase()) ctx.probe("abandoned_wallet_tx");
        }
        if (any_cc) ctx.probe("wallet_tx_conflicted_by_chain");
        if (pend_all > 0) ctx.probe("untrusted_pending_nonzero");
        if (imm_all > 0) ctx.probe("immature_nonzero");
        for (auto& c : coins) {
            if (c.depth == 0 && c.safe) ctx.probe("trusted_unconfirmed_coin");
            if (c.reserved == 1) ctx.probe("coin_reserved_by_inactive_tx");
            auto u = v.utxo->find(c.op);
            if (u != v.utxo->end() && u->second.coinbase) {
                if (c.depth == kMaturityDepth - 1) ctx.probe("coinbase_depth_100_immature");
                if (c.depth == kMaturityDepth) ctx.probe("coinbase_depth_101_mature");
            }
        }
        ctx.fingerprint(fp);
    }

    // ====================================================== generator ======================================================
    struct GenCoin { COutPoint op; RefCoin coin; };
    std::vector<GenCoin> GenCoins()
    {
        std::vector<GenCoin> out;
        int t = cs.TipIdx();
        if (t < 0) return out;
        const RefBlock& T = ref().blocks[t];
        const Keyring& kr = Keys();
        for (auto& [op, c] : *T.utxo) {
            if (IsMineSpk(c.spk) || !kr.CanSpend(c.spk)) continue;
            if (c.coinbase && T.height + 1 - c.height < ref().maturity) continue;
            if (node().pool().isSpent(op)) continue;
            if (c.value < 100000) continue;
            out.push_back({op, c});
        }
        return out;
    }
    bool SubmitToNode(const CTransactionRef& tx, const char* what)
    {
        MempoolAcceptResult::ResultType rt;
        std::string reason;
        {
            LOCK(cs_main);
            const MempoolAcceptResult res = node().cm().ProcessTransaction(tx, /*test_accept=*/false);
            rt = res.m_result_type;
            reason = res.m_state.GetRejectReason();
        }
        node().DrainSignals();
        bool ok = rt == MempoolAcceptResult::ResultType::VALID;
        ctx.evf("submit %s %s -> %s %s pool=%lu", what, Hx(tx->GetHash()).c_str(), ok ? "accepted" : "rejected", reason.c_str(), node().pool().size());
        return ok;
    }
    Addr NewAddr(uint64_t type_sel)
    {
        OutputType t = OUTPUT_TYPES[type_sel % OUTPUT_TYPES.size()];
        unsigned before = WITH_LOCK(w->cs_wallet, return w->GetKeyPoolSize());
        auto d = wn->NewAddress(*w, t);
        if (!d) ctx.failf("sim-no-address", "getnewaddress failed: %s", wn->last_error.c_str());
        unsigned after = WITH_LOCK(w->cs_wallet, return w->GetKeyPoolSize());
        if (after >= before) ctx.probe("keypool_topup");
        Addr a{*d, WalletNode::ScriptFor(*d)};
        S.insert(a.spk);
        addrs.push_back(a);
        return a;
    }
    CScript WalletSpk(Rng& r, bool fresh)
    {
        if (loaded && (fresh || addrs.empty())) return NewAddr(r.below(4)).spk;
        return addrs[r.below(addrs.size())].spk;
    }
    CScript GenSpk(Rng& r)
    {
        static const SK kinds[] = {SK::P2WPKH, SK::P2WPKH, SK::P2PKH, SK::P2TR, SK::P2SH_P2WPKH, SK::TRUE_WSH};
        return Keys().Spk(kinds[r.below(6)], (int)r.below(N_KEYS));
    }

    /** Build one block on `parent` from the candidates that are valid there (model's judgement), deliver it unless told not to. */
    int BuildBlock(int parent, std::vector<CTransactionRef> cands, Rng& r, int include_pct, bool cb_to_wallet, bool deliver)
    {
        const RefBlock& P = ref().blocks[parent];
        const int height = P.height + 1;
        const int64_t mtp = ref().MTP(parent);
        cs.now += r.range(20, 400);
        SetMockTime(std::chrono::seconds{cs.now});
        int64_t time = std::max<int64_t>(mtp + 1, cs.now);
        RefUtxo view = *P.utxo;
        // seeded order and subset
        for (size_t i = cands.size(); i > 1; --i) std::swap(cands[i - 1], cands[r.below(i)]);
        std::vector<CTransactionRef> pool;
        std::set<Txid> seen;
        for (auto& tx : cands)
            if (seen.insert(tx->GetHash()).second && (int)r.below(100) < include_pct) pool.push_back(tx);
        std::vector<CTransactionRef> chosen;
        CAmount fees = 0;
        bool progress = true;
        std::vector<char> used(pool.size(), 0);
        while (progress && chosen.size() < 400) {
            progress = false;
            for (size_t i = 0; i < pool.size(); ++i) {
                if (used[i]) continue;
                const CTransaction& tx = *pool[i];
                if (!ref().IsFinal(tx, height, mtp)) continue;
                CAmount fee = 0;
                if (!ref().CheckTxContextual(tx, view, height, parent, fee).empty()) continue;
                RefApplyTx(view, tx, height);
                fees += fee;
                chosen.push_back(pool[i]);
                used[i] = 1;
                progress = true;
            }
        }
        BlockExtras ex;
        ex.cb_extranonce = (uint32_t)(++cs.cb_nonce);
        ex.coinbase_spk = cb_to_wallet ? addrs[r.below(addrs.size())].spk : GenSpk(r);
        auto block = nodesim::BuildBlock(P.hash, height, time, chosen, RefSubsidy(height, ref().halving_interval) + fees, ex, node().params->GetConsensus());
        int idx = cs.AddBlock(block, parent, BlockLabel{});
        if (ref().blocks[idx].verdict != Verdict::VALID) ctx.failf("sim-built-invalid-block", "block #%d: %s", idx, ref().blocks[idx].reason.c_str());
        if (cb_to_wallet) ctx.probe("coinbase_to_wallet");
        for (auto& tx : chosen) {
            if (K.count(tx->GetHash())) ctx.probe("wallet_tx_in_block");
            for (auto& h : held)
                if (h->GetHash() == tx->GetHash()) ctx.probe("held_double_spend_in_block");
        }
        if (deliver) cs.Deliver(idx, true);
        return idx;
    }
    std::vector<CTransactionRef> PoolTxs()
    {
        std::vector<CTransactionRef> v;
        for (auto& info : node().pool().infoAll()) v.push_back(info.tx);
        std::sort(v.begin(), v.end(), [](auto& a, auto& b) { return a->GetHash() < b->GetHash(); });
        return v;
    }

    // ==================================================== wallet lifecycle =================================================
    void Unload()
    {
        if (!loaded) return;
        node().DrainSignals();
        Absorb();
        unload_tip = cs.TipIdx();
        wn->UnloadWallet(w);
        loaded = false;
        ctx.evf("unload tip=#%d", unload_tip);
    }
    void Load()
    {
        if (loaded) return;
        node().DrainSignals();
        rec->evs.clear(); // whatever happened while the wallet was away is not shown to it
        int tip = cs.TipIdx();
        int fork = ref().ForkPoint(unload_tip, tip);
        std::vector<CTransactionRef> pool_before = PoolTxs();
        loaded = true;
        w = wn->LoadWallet(wname);
        if (!w) ctx.failf("wallet-load-failed", "%s", wn->last_error.c_str());
        // the wallet rescans the active chain from the fork point of its stored locator ...
        if (fork != tip) {
            for (int b : ref().PathFrom(fork, tip)) KBlockConnected(*ref().blocks[b].block);
            if (fork != unload_tip) ctx.probe("load_after_offline_reorg");
            else ctx.probe("load_after_offline_blocks");
        }
        // ... and asks for the mempool's contents (parents first, so that spends of wallet coins are recognised); every mempool
        // conflict is noticed now
        for (auto& [id, k] : K) k.committed_mconf = false;
        SeeMempool(pool_before);
        Absorb(); // resubmissions during postInitProcess
        ctx.probe("wallet_loaded");
        ctx.evf("load tip=#%d fork=#%d rescanned=%d", tip, fork, ref().blocks[tip].height - ref().blocks[fork].height);
    }
    void SeeMempool(std::vector<CTransactionRef> txs)
    {
        bool progress = true;
        std::vector<char> done(txs.size(), 0);
        // topological: a transaction is shown once none of its parents is still waiting
        while (progress) {
            progress = false;
            std::set<Txid> waiting;
            for (size_t i = 0; i < txs.size(); ++i)
                if (!done[i]) waiting.insert(txs[i]->GetHash());
            for (size_t i = 0; i < txs.size(); ++i) {
                if (done[i]) continue;
                bool parent_waiting = false;
                for (auto& in : txs[i]->vin)
                    if (waiting.count(in.prevout.hash)) parent_waiting = true;
                if (parent_waiting) continue;
                KSee(txs[i]);
                done[i] = 1;
                progress = true;
            }
        }
    }

    // ========================================================= ops =========================================================
    void Setup()
    {
        cs.tweak_opts = [&](NodeOpts& o) {
            o.listeners.push_back(rec);
            o.make_runner = &MakeDeferredTaskRunner; // callbacks after the emitting validation call, as on a real node (see walletsim.h)
            o.mempool_check_ratio = 0;
            o.mempool_expiry_s = ctx.knob("expiry_h", 336) * 3600;
            o.require_standard = true;
        };
        cs.StartNode();
        WalletNodeOpts wo;
        wo.keypool = (int)std::clamp<int64_t>(ctx.knob("keypool", 5), 1, 50);
        wo.unsafe_sync = ctx.knob("unsafe_sync", 0) != 0;
        wn = std::make_unique<WalletNode>(node(), wo);
        WalletCreateOpts co;
        co.seed = (uint64_t)ctx.knob("wallet_seed", 1);
        w = wn->CreateWallet(wname, co);
        if (!w) ctx.failf("wallet-create-failed", "%s", wn->last_error.c_str());
        loaded = true;
        rec->evs.clear();
        int naddr = (int)std::clamp<int64_t>(ctx.knob("naddr", 4), 1, 12);
        for (int i = 0; i < naddr; ++i) NewAddr(i);
        Rng r(mix64(ctx.plan.seed, 0xba5e44));
        int base = (int)std::clamp<int64_t>(ctx.knob("base", 105), 1, 300);
        int pct = (int)std::clamp<int64_t>(ctx.knob("cb_wallet_pct", 50), 0, 100);
        for (int i = 0; i < base; ++i) BuildBlock(cs.TipIdx(), {}, r, 0, (int)r.below(100) < pct, true);
        if (node().Height() != base) ctx.failf("base-chain-not-connected", "height %d after %d base blocks", node().Height(), base);
        start_time = cs.now;
        ctx.evf("setup base=%d addrs=%zu", base, addrs.size());
        Check("after base chain");
    }

    void OpReceive(const Op& op)
    {
        Rng r(mix64((uint64_t)op.arg(1), 0x72637631));
        std::vector<GenCoin> funds = GenCoins();
        if (funds.empty()) { ctx.ev("receive: generator has no funds"); return; }
        GenCoin c = funds[r.below(funds.size())];
        int nouts = (int)std::clamp<int64_t>(op.arg(0), 1, 3);
        CAmount fee = 2000 + 1000 * (CAmount)op.mod(3, 4);
        CAmount left = c.coin.value - fee;
        std::vector<CTxOut> outs;
        for (int i = 0; i < nouts; ++i) {
            CAmount v = std::max<CAmount>(20000, (CAmount)((double)c.coin.value * (double)r.range(3, 30) / 100.0));
            if (v + 20000 > left) break;
            outs.emplace_back(v, WalletSpk(r, (op.arg(2) & 1) != 0));
            left -= v;
        }
        if (outs.empty()) { ctx.ev("receive: coin too small"); return; }
        if (left > 5000) outs.emplace_back(left, Keys().Spk(SK::P2WPKH, (int)r.below(N_KEYS)));
        if (op.arg(2) & 2) std::reverse(outs.begin(), outs.end());
        std::vector<TxIn> ins{{c.op, c.coin, 0xfffffffdu}};
        bool ok = true;
        CTransactionRef tx = BuildTx(ins, outs, 0, 2, SigDefect::NONE, 0, ok);
        if (SubmitToNode(tx, "receive")) {
            ext_receives.push_back({tx, ins});
            ctx.probe("receive_unconfirmed");
            ctx.nontrivial = true;
        }
    }
    void OpExtConflict(const Op& op)
    {
        std::vector<size_t> cand;
        const bool hold = op.mod(1, 2) != 0;
        for (size_t i = 0; i < ext_receives.size(); ++i)
            if (node().pool().exists(ext_receives[i].tx->GetHash()) || (hold && i + 4 >= ext_receives.size())) cand.push_back(i);
        if (cand.empty()) { ctx.ev("ext-conflict: no suitable receive"); return; }
        const ExtReceive& R = ext_receives[cand[cand.size() - 1 - op.mod(0, cand.size())]];
        Rng r(mix64((uint64_t)op.arg(2), 0x78636f6e));
        CAmount in = 0, out = 0;
        for (auto& i : R.ins) in += i.coin.value;
        for (auto& o : R.tx->vout) out += o.nValue;
        CAmount fee = (in - out) * 3 + 3000;
        std::vector<CTxOut> outs;
        CAmount left = in - fee;
        if (r.chance(1, 3) && left > 100000) { CAmount v = left / 3; outs.emplace_back(v, WalletSpk(r, false)); left -= v; }
        outs.emplace_back(left, Keys().Spk(SK::P2WPKH, (int)r.below(N_KEYS)));
        bool ok = true;
        CTransactionRef tx = BuildTx(R.ins, outs, 0, 2, SigDefect::NONE, 0, ok);
        if (hold) { held.push_back(tx); ctx.evf("ext-conflict %s of receive %s held", Hx(tx->GetHash()).c_str(), Hx(R.tx->GetHash()).c_str()); }
        else if (SubmitToNode(tx, "ext-conflict")) ctx.probe("receive_replaced_in_mempool");
        ctx.probe("receive_double_spend_built");
    }
    CTxDestination ExternalDest(Rng& r) { return WalletNode::DestFor(GenSpk(r)); }
    void NoteChange(const SendResult& res)
    {
        if (res.change_pos) {
            S.insert(res.tx->vout[*res.change_pos].scriptPubKey);
            own_change.emplace_back(res.tx->GetHash(), *res.change_pos);
        }
    }
    void OpSend(const Op& op)
    {
        if (!loaded) { ctx.ev("send: wallet not loaded"); return; }
        Rng r(mix64((uint64_t)op.arg(1), 0x73656e64));
        int nrec = (int)std::clamp<int64_t>(op.arg(0), 1, 3);
        int64_t flags = op.arg(2);
        SendSpec spec;
        CAmount budget = std::max<CAmount>(last_spendable, 200000);
        bool big = (flags & SF_BIG) != 0;
        for (int i = 0; i < nrec; ++i) {
            CAmount v = big ? (CAmount)((double)budget * (double)r.range(55, 97) / 100.0 / nrec) : std::max<CAmount>(30000, (CAmount)((double)budget * (double)r.range(1, 25) / 100.0 / nrec));
            bool self = (flags & SF_SELF) && i == 0;
            CTxDestination d = self ? WalletNode::DestFor(WalletSpk(r, r.chance(1, 2))) : ExternalDest(r);
            spec.recipients.push_back(WalletNode::Recipient(d, v, (flags & SF_SUBTRACT) && i == 0));
        }
        spec.include_unsafe = (flags & SF_UNSAFE) != 0;
        if (flags & SF_FEERATE) spec.feerate = CFeeRate(r.range(1000, 60000));
        if ((flags & SF_CHAIN_CHANGE) && !own_change.empty()) {
            // chain on an own unconfirmed change output (plus whatever else the wallet picks)
            COutPoint c = own_change[own_change.size() - 1 - r.below(std::min<size_t>(own_change.size(), 3))];
            if (node().pool().exists(c.hash) && !node().pool().isSpent(c)) { spec.preset_inputs.push_back(c); ctx.probe("send_chained_on_own_change"); }
        }
        if (flags & SF_CHAIN_RECEIVE) {
            // build on a wallet output of a receive that is still unconfirmed
            for (size_t k = ext_receives.size(); k-- > 0 && spec.preset_inputs.empty();) {
                const CTransaction& R = *ext_receives[k].tx;
                if (!node().pool().exists(R.GetHash())) continue;
                for (uint32_t n = 0; n < R.vout.size(); ++n)
                    if (IsMineSpk(R.vout[n].scriptPubKey) && !node().pool().isSpent(COutPoint(R.GetHash(), n))) { spec.preset_inputs.emplace_back(R.GetHash(), n); ctx.probe("send_chained_on_unconfirmed_receive"); break; }
            }
        }
        static const std::optional<OutputType> ct[] = {std::nullopt, OutputType::LEGACY, OutputType::P2SH_SEGWIT, OutputType::BECH32, OutputType::BECH32M};
        spec.change_type = ct[op.mod(3, 5)];
        SendResult res = wn->CreateTx(*w, spec);
        if (!res.ok) { ctx.evf("send failed: %s", res.error.c_str()); ctx.probe("send_failed"); return; }
        NoteChange(res);
        wn->Commit(*w, res.tx);
        KSee(res.tx);
        sends.push_back(res.tx->GetHash());
        bool inpool = node().pool().exists(res.tx->GetHash());
        ctx.evf("send %s nin=%zu nout=%zu fee=%ld change=%d inpool=%d", Hx(res.tx->GetHash()).c_str(), res.tx->vin.size(), res.tx->vout.size(), (long)res.fee, res.change_pos ? (int)*res.change_pos : -1, inpool);
        ctx.probe(inpool ? "wallet_send_in_mempool" : "wallet_send_not_accepted");
        if (res.tx->vin.size() > 1) ctx.probe("wallet_send_multi_input");
        ctx.nontrivial = true;
    }
    void OpDoubleSpend(const Op& op)
    {
        if (!loaded) { ctx.ev("double-spend: wallet not loaded"); return; }
        if (sends.empty()) { ctx.ev("double-spend: no wallet send yet"); return; }
        Rng r(mix64((uint64_t)op.arg(2), 0x64626c73));
        Txid a = sends[sends.size() - 1 - op.mod(0, std::min<size_t>(sends.size(), 8))];
        auto it = K.find(a);
        if (it == K.end()) { ctx.ev("double-spend: send unknown to the wallet"); return; }
        const CTransaction& A = *it->second.tx;
        SendSpec spec;
        CAmount in_value = 0;
        size_t take = r.chance(1, 2) ? 1 : A.vin.size();
        size_t first = r.below(A.vin.size());
        for (size_t k = 0; k < take; ++k) {
            const COutPoint& p = A.vin[(first + k) % A.vin.size()].prevout;
            spec.preset_inputs.push_back(p);
            auto pk = K.find(p.hash);
            if (pk != K.end() && p.n < pk->second.tx->vout.size()) in_value += pk->second.tx->vout[p.n].nValue;
        }
        if (in_value < 60000) { ctx.ev("double-spend: inputs too small"); return; }
        spec.allow_other_inputs = false;
        spec.feerate = CFeeRate(r.range(40000, 90000)); // enough to replace the original in the mempool
        CTxDestination d = r.chance(1, 4) ? WalletNode::DestFor(WalletSpk(r, false)) : ExternalDest(r);
        spec.recipients.push_back(WalletNode::Recipient(d, std::max<CAmount>(30000, (CAmount)((double)in_value * (double)r.range(10, 60) / 100.0))));
        SendResult res = wn->CreateTx(*w, spec);
        if (!res.ok) { ctx.evf("double-spend of %s failed: %s", Hx(a).c_str(), res.error.c_str()); return; }
        NoteChange(res);
        int mode = (int)op.mod(1, 3);
        ctx.evf("double-spend %s of wallet send %s mode=%d", Hx(res.tx->GetHash()).c_str(), Hx(a).c_str(), mode);
        ctx.probe("wallet_send_double_spend_built");
        sends.push_back(res.tx->GetHash());
        if (mode == 0) held.push_back(res.tx);
        else if (mode == 1) { if (SubmitToNode(res.tx, "double-spend")) ctx.probe("double_spend_accepted_to_mempool"); }
        else {
            wn->Commit(*w, res.tx);
            KSee(res.tx);
            Absorb();
            View v = MakeView();
            St st = Status(v, res.tx->GetHash());
            if (st == CCONF) {
                // the user forced inputs that descend from a transaction the chain has already conflicted
                K[res.tx->GetHash()].committed_conflicted = true;
                ctx.probe("committed_tx_already_conflicted");
            } else if (st == MCONF) {
                K[res.tx->GetHash()].committed_mconf = true;
                ctx.probe("committed_tx_already_conflicted_by_mempool");
            }
            ctx.evf("double-spend committed inpool=%d", (int)node().pool().exists(res.tx->GetHash()));
        }
    }
    void OpSpendExternal(const Op& op)
    {
        if (!loaded) { ctx.ev("spend-external: wallet not loaded"); return; }
        Rng r(mix64((uint64_t)op.arg(0), 0x73657874));
        SendSpec spec;
        spec.recipients.push_back(WalletNode::Recipient(ExternalDest(r), std::max<CAmount>(30000, (CAmount)((double)std::max<CAmount>(last_spendable, 200000) * (double)r.range(1, 20) / 100.0))));
        SendResult res = wn->CreateTx(*w, spec);
        if (!res.ok) { ctx.evf("spend-external failed: %s", res.error.c_str()); return; }
        NoteChange(res);
        sends.push_back(res.tx->GetHash());
        if (SubmitToNode(res.tx, "spend-external")) ctx.probe("wallet_coins_spent_by_uncommitted_tx");
    }
    std::vector<CTransactionRef> HeldSubset(Rng& r, int pct)
    {
        std::vector<CTransactionRef> v;
        for (auto& h : held)
            if ((int)r.below(100) < pct) v.push_back(h);
        return v;
    }
    void OpMine(const Op& op)
    {
        Rng r(mix64((uint64_t)op.arg(1), 0x6d696e65));
        static const int inc[] = {100, 100, 75, 40, 0};
        int n = (int)std::clamp<int64_t>(op.arg(0), 1, 4);
        static const int hp[] = {0, 50, 100};
        for (int i = 0; i < n; ++i) {
            std::vector<CTransactionRef> cands = HeldSubset(r, hp[op.mod(4, 3)]);
            for (auto& t : PoolTxs()) cands.push_back(t);
            BuildBlock(cs.TipIdx(), cands, r, inc[op.mod(2, 5)], (op.arg(3) >> i) & 1, true);
        }
    }
    void OpReorg(const Op& op)
    {
        int t = cs.TipIdx();
        if (t < 0) return;
        Rng r(mix64((uint64_t)op.arg(2), 0x72656f72));
        int depth = (int)std::clamp<int64_t>(op.arg(0), 1, 6);
        int H = ref().blocks[t].height;
        int fork = ref().Ancestor(t, std::max(0, H - depth));
        int len = H - ref().blocks[fork].height + (int)std::clamp<int64_t>(op.arg(1), 1, 2);
        static const int inc[] = {100, 80, 50, 20, 0};
        std::vector<CTransactionRef> cands = HeldSubset(r, 70);
        for (int b : ref().PathFrom(fork, t))
            for (auto& tx : ref().blocks[b].block->vtx)
                if (!tx->IsCoinBase()) cands.push_back(tx);
        for (auto& tx : PoolTxs()) cands.push_back(tx);
        std::vector<int> branch;
        int parent = fork;
        for (int i = 0; i < len; ++i) {
            parent = BuildBlock(parent, cands, r, inc[op.mod(3, 5)], (op.arg(4) >> i) & 1, false);
            branch.push_back(parent);
        }
        int order = (int)op.mod(5, 3);
        if (order == 1) {
            std::reverse(branch.begin(), branch.end());
            for (int b : branch) cs.Deliver(b, true);
            std::reverse(branch.begin(), branch.end());
        }
        for (int b : branch) cs.Deliver(b, true);
        int nt = cs.TipIdx();
        if (nt >= 0 && !ref().IsAncestor(t, nt)) {
            ++reorgs;
            ctx.probe("reorg");
            if (depth >= 3) ctx.probe("reorg_depth_ge_3");
            // did a coinbase of the wallet leave the chain?
            for (int b : ref().PathFrom(ref().ForkPoint(t, nt), t))
                if (IsMineSpk(ref().blocks[b].block->vtx[0]->vout[0].scriptPubKey)) ctx.probe("wallet_coinbase_disconnected");
        }
    }
    void OpAbandon(const Op& op)
    {
        if (!loaded) { ctx.ev("abandon: wallet not loaded"); return; }
        Absorb();
        View v = MakeView();
        std::vector<Txid> cand;
        for (auto& id : korder) {
            St s = Status(v, id);
            if (s != CONF && s != POOL && !K.at(id).tx->IsCoinBase()) cand.push_back(id);
        }
        if (cand.empty()) { ctx.ev("abandon: nothing inactive"); return; }
        Txid id = cand[cand.size() - 1 - op.mod(0, cand.size())];
        St before = Status(v, id);
        for (uint32_t n = 0; n < K.at(id).tx->vout.size(); ++n)
            if (kspenders.count(COutPoint(id, n))) ctx.probe("abandon_tx_with_descendants");
        bool ok = wn->Abandon(*w, id);
        ctx.evf("abandon %s (model:%s) -> %d", Hx(id).c_str(), StName(before), (int)ok);
        if (!ok) { ctx.probe("abandon_refused"); return; }
        ctx.probe("abandon_ok");
        // the transaction and its not-yet-conflicted, not-yet-abandoned descendants become abandoned
        std::vector<Txid> todo{id};
        std::set<Txid> done;
        while (!todo.empty()) {
            Txid now = todo.back();
            todo.pop_back();
            if (!done.insert(now).second) continue;
            St s = Status(v, now);
            if (s == CCONF || s == ABANDONED) continue;
            K[now].abandoned = true;
            const CTransaction& tx = *K[now].tx;
            for (uint32_t n = 0; n < tx.vout.size(); ++n) {
                auto sp = kspenders.find(COutPoint(now, n));
                if (sp != kspenders.end())
                    for (auto& c : sp->second) todo.push_back(c);
            }
        }
    }
    void OpRestartNode()
    {
        if (!ctx.knob("on_disk", 0)) { ctx.ev("restart: node is not on disk"); return; }
        Unload();
        wn->Detach();
        node().Stop(/*clean=*/true);
        if (!node().Start()) ctx.failf("restart-failed", "clean restart failed: %s", node().last_error.c_str());
        wn->Attach();
        ctx.probe("node_restart");
        ctx.evf("restart tip=%s h=%d", Hx(node().TipHash()).c_str(), node().Height());
        Load();
    }
    void OpRescan(const Op& op)
    {
        if (!loaded) { ctx.ev("rescan: wallet not loaded"); return; }
        Absorb();
        int tip = cs.TipIdx();
        int H = ref().blocks[tip].height;
        int from = std::max(0, H - (int)std::clamp<int64_t>(op.arg(0), 1, 60));
        std::vector<CTransactionRef> pool_before = PoolTxs();
        bool ok = wn->Rescan(*w, from);
        if (!ok) ctx.failf("rescan-failed", "ScanForWalletTransactions from height %d did not succeed", from);
        int a = ref().Ancestor(tip, from);
        KBlockConnected(*ref().blocks[a].block);
        for (int b : ref().PathFrom(a, tip)) KBlockConnected(*ref().blocks[b].block);
        for (auto& [id, k] : K) k.committed_mconf = false; // the scan ends with requestMempoolTransactions
        SeeMempool(pool_before);
        ctx.probe("rescan");
        ctx.evf("rescan from h=%d", from);
    }

    /** A transaction with one input of the wallet and one of a stranger (whose coin comes from a transaction the wallet knows):
     *  the wallet signs its input, the stranger signs his, the result reaches the node from outside. */
    void OpJoint(const Op& op)
    {
        if (!loaded) { ctx.ev("joint: wallet not loaded"); return; }
        Rng r(mix64((uint64_t)op.arg(0), 0x6a6f696e));
        std::vector<WalletCoin> mine = wn->AvailableCoins(*w, false);
        if (mine.empty()) { ctx.ev("joint: wallet has no coin"); return; }
        const WalletCoin wc = mine[r.below(mine.size())];
        // the stranger's coin: preferably his change of a payment to the wallet (a transaction the wallet has)
        std::optional<std::pair<COutPoint, CTxOut>> gc;
        int t = cs.TipIdx();
        for (size_t k = ext_receives.size(); k-- > 0 && !gc;) {
            const CTransaction& R = *ext_receives[k].tx;
            bool inpool = node().pool().exists(R.GetHash());
            for (uint32_t n = 0; n < R.vout.size() && !gc; ++n) {
                COutPoint o(R.GetHash(), n);
                if (IsMineSpk(R.vout[n].scriptPubKey) || Keys().Classify(R.vout[n].scriptPubKey).kind != SK::P2WPKH || node().pool().isSpent(o)) continue;
                if (inpool || ref().blocks[t].utxo->count(o)) gc = std::make_pair(o, R.vout[n]);
            }
        }
        if (!gc) {
            for (auto& g : GenCoins())
                if (Keys().Classify(g.coin.spk).kind == SK::P2WPKH) { gc = std::make_pair(g.op, CTxOut(g.coin.value, g.coin.spk)); break; }
        }
        if (!gc) { ctx.ev("joint: stranger has no suitable coin"); return; }
        if (wc.txout.nValue < 50000 || gc->second.nValue < 50000) { ctx.ev("joint: coins too small"); return; }
        CMutableTransaction mtx;
        mtx.version = 2;
        mtx.vin.emplace_back(wc.outpoint, CScript(), 0xfffffffdu);
        mtx.vin.emplace_back(gc->first, CScript(), 0xfffffffdu);
        if (r.coin()) std::swap(mtx.vin[0], mtx.vin[1]);
        mtx.vout.emplace_back(wc.txout.nValue - 5000, WalletSpk(r, r.chance(1, 2)));
        mtx.vout.emplace_back(gc->second.nValue - 5000, Keys().Spk(SK::P2WPKH, (int)r.below(N_KEYS)));
        std::map<COutPoint, Coin> coins;
        coins[wc.outpoint] = Coin(wc.txout, 1, false);
        coins[gc->first] = Coin(gc->second, 1, false);
        wn->PartialSign(*w, mtx, coins);
        for (size_t i = 0; i < mtx.vin.size(); ++i) {
            if (mtx.vin[i].prevout != gc->first) continue;
            SpendInfo si = Keys().Classify(gc->second.scriptPubKey);
            const CPubKey& pub = Keys().pubs[si.key];
            CScript code = CScript() << OP_DUP << OP_HASH160 << ToByteVector(pub.GetID()) << OP_EQUALVERIFY << OP_CHECKSIG;
            uint256 h = SignatureHash(code, mtx, (unsigned)i, SIGHASH_ALL, gc->second.nValue, SigVersion::WITNESS_V0);
            std::vector<unsigned char> sig;
            Keys().keys[si.key].Sign(h, sig);
            sig.push_back(SIGHASH_ALL);
            mtx.vin[i].scriptWitness.stack = {sig, ToByteVector(pub)};
        }
        CTransactionRef tx = MakeTransactionRef(mtx);
        sends.push_back(tx->GetHash());
        if (SubmitToNode(tx, "joint")) { ctx.probe("joint_tx_in_mempool"); ctx.nontrivial = true; }
    }
    void OpInvalidate(const Op& op)
    {
        if (invalidated >= 0) { ctx.ev("invalidate: one block is invalidated already"); return; }
        int t = cs.TipIdx();
        int H = ref().blocks[t].height;
        int depth = (int)std::clamp<int64_t>(op.arg(0), 1, 4);
        if (H - depth < 1) return;
        int idx = ref().Ancestor(t, H - depth + 1);
        CBlockIndex* pi = WITH_LOCK(cs_main, return node().cm().m_blockman.LookupBlockIndex(ref().blocks[idx].hash));
        if (!pi) return;
        BlockValidationState st, st2;
        node().cs().InvalidateBlock(st, pi);
        node().cs().ActivateBestChain(st2);
        node().DrainSignals();
        invalidated = idx;
        cs.manual_invalid.insert(idx);
        ctx.probe("invalidateblock");
        ctx.evf("invalidate #%d -> tip=%s h=%d", idx, Hx(node().TipHash()).c_str(), node().Height());
    }
    void OpReconsider()
    {
        if (invalidated < 0) { ctx.ev("reconsider: nothing invalidated"); return; }
        CBlockIndex* pi = WITH_LOCK(cs_main, return node().cm().m_blockman.LookupBlockIndex(ref().blocks[invalidated].hash));
        if (pi) {
            {
                LOCK(cs_main);
                node().cs().ResetBlockFailureFlags(pi);
                node().cm().RecalculateBestHeader();
            }
            BlockValidationState st;
            node().cs().ActivateBestChain(st);
            node().DrainSignals();
        }
        cs.manual_invalid.erase(invalidated);
        ctx.probe("reconsiderblock");
        ctx.evf("reconsider #%d -> tip=%s h=%d", invalidated, Hx(node().TipHash()).c_str(), node().Height());
        invalidated = -1;
    }
    void OpTrim(const Op& op)
    {
        size_t before = node().pool().size();
        {
            LOCK2(cs_main, node().pool().cs);
            size_t usage = node().pool().DynamicMemoryUsage();
            node().pool().TrimToSize(usage * (size_t)std::clamp<int64_t>(op.arg(0), 0, 100) / 100);
        }
        node().DrainSignals();
        if (node().pool().size() < before) ctx.probe("mempool_trimmed");
        ctx.evf("trim %zu -> %lu", before, node().pool().size());
    }

    void Exec(const Op& op)
    {
        switch (op.kind) {
        case W_RECEIVE: OpReceive(op); break;
        case W_EXT_CONFLICT: OpExtConflict(op); break;
        case W_SEND: OpSend(op); break;
        case W_DOUBLE_SPEND: OpDoubleSpend(op); break;
        case W_SPEND_EXTERNAL: OpSpendExternal(op); break;
        case W_MINE: OpMine(op); break;
        case W_REORG: OpReorg(op); break;
        case W_ABANDON: OpAbandon(op); break;
        case W_UNLOAD: if (loaded) { Check("before unload"); Unload(); ctx.probe("wallet_unloaded"); } break;
        case W_LOAD: Load(); break;
        case W_RESTART_NODE: OpRestartNode(); break;
        case W_RESUBMIT:
            if (loaded) { wn->Resubmit(*w); ctx.evf("resubmit pool=%lu", node().pool().size()); ctx.probe("resubmit"); }
            break;
        case W_RESCAN: OpRescan(op); break;
        case W_NEWADDR: if (loaded) { NewAddr(op.mod(0, 4)); ctx.ev("newaddr"); } break;
        case W_JOINT: OpJoint(op); break;
        case W_INVALIDATE: OpInvalidate(op); break;
        case W_RECONSIDER: OpReconsider(); break;
        case W_TRIM: OpTrim(op); break;
        case W_CLOCK:
            cs.now += std::clamp<int64_t>(op.arg(0), 1, 100000);
            SetMockTime(std::chrono::seconds{cs.now});
            ctx.evf("clock+%ld", (long)op.arg(0));
            if (op.arg(0) >= 3600) {
                // the mempool expires old entries when it next accepts something: a payment among strangers does that
                std::vector<GenCoin> funds = GenCoins();
                if (!funds.empty()) {
                    const GenCoin& c = funds[op.mod(0, funds.size())];
                    bool ok = true;
                    CTransactionRef tx = BuildTx({{c.op, c.coin, 0xfffffffdu}}, {CTxOut(c.coin.value - 3000, Keys().Spk(SK::P2WPKH, (int)op.mod(0, N_KEYS)))}, 0, 2, SigDefect::NONE, 0, ok);
                    SubmitToNode(tx, "unrelated");
                }
            }
            break;
        default: break;
        }
        Check(Describe(op));
    }

    void Run()
    {
        Setup();
        for (const Op& op : ctx.plan.ops) Exec(op);
        if (!loaded) { Load(); Check("after final load"); }
        ctx.sim_ms = (uint64_t)(cs.now - start_time) * 1000;
        w.reset();
        wn->Detach();
        node().Stop(true);
    }
};

void Run(Ctx& ctx)
{
    WalletSim s(ctx);
    s.Run();
}

Engine MakeEngine()
{
    Engine e;
    e.prop = "C44";
    e.name = "walletsim/balances";
    e.level = "exploration";
    e.gen = Gen;
    e.run = Run;
    e.describe = Describe;
    e.chunk = 1;
    e.quick_runs = 400;
    e.thorough_runs = 10000;
    e.quick_budget_s = 50;
    e.thorough_budget_s = 900;
    e.run_timeout_s = 300;
    e.rule = "each run = one history on a real regtest node with a real descriptor wallet (SQLite, HD seed from the plan) attached through interfaces::Chain since genesis: a base chain of 101-116 blocks whose coinbases pay the wallet "
             "with a per-run probability (so coinbases sit on both sides of the 100/101-confirmation boundary and cross it with every block, reorg and invalidateblock), then 18-90 operations (knobs: keypool 2-9, mempool expiry 1 h-2 weeks, "
             "on-disk node, SQLite sync mode; per-run operation mix) with, at 1 in 9 positions, a short scripted scenario made of the same operations: external receives into the mempool, their double-spends (RBF or in a block), wallet "
             "sends (1-3 recipients, self-sends, subtract-fee, explicit feerate, include-unsafe, chained on own unconfirmed change or on an unconfirmed receive, all change types), double-spends of wallet sends signed by the wallet but "
             "never committed (held for a block / replaced into the mempool / committed), joint transactions (one wallet input, one foreign input), wallet coins spent by a wallet-signed transaction that reaches the node from outside, "
             "blocks with seeded subsets of the mempool and of the held conflicts, reorgs of depth 1-6 that re-include a seeded subset of the disconnected transactions, invalidateblock/reconsiderblock, abandontransaction, clock jumps "
             "past mempool expiry, mempool trimming, unload / offline history / load with rescan, node restart, rescanblockchain, resubmission. The oracle runs after every operation. non-trivial = at least one wallet send or receive "
             "reached the mempool; distinct = (tip, multiset of model transaction states, balances) fingerprints.";
    e.real_components = {"wallet::CWallet (SyncTransaction, blockConnected/blockDisconnected, MarkConflicted, RecursiveUpdateTxState, AbandonTransaction, AttachChain + ScanForWalletTransactions, LoadToWallet/updateState)",
                         "wallet::GetBalance, CachedTxIsTrusted, wallet::AvailableCoins, CreateTransaction / coin selection / signing, CommitTransaction", "DescriptorScriptPubKeyMan (HD derivation, keypool top-up)",
                         "wallet SQLite database (production options)", "interfaces::Chain (node/interfaces.cpp ChainImpl) incl. notification proxy and BroadcastTransaction", "ChainstateManager, CTxMemPool (RBF, expiry, reorg handling), ValidationSignals"};
    e.stub_components = {"peers (PeerManager stub: relay is a no-op)", "clock (SetMockTime)", "scheduler (none: notifications are delivered synchronously; periodic wallet flush/resend are explicit operations)", "fee estimator (none: fallback fee or explicit feerate)",
                         "HD seed (derived from the plan instead of GetStrongRandBytes)"};
    e.assumptions = {"RefChain's UTXO(tip) is the chain's truth (see C08/C09)",
                     "the wallet's script set is the set of addresses it handed out plus the change scripts it reported; nobody pays its look-ahead scripts",
                     "trusted = confirmed (coinbase: 101+ confirmations), or in the mempool with every input a wallet coin whose transaction is itself confirmed or trusted; untrusted pending = other mempool outputs to the wallet; "
                     "immature = confirmed coinbase outputs with at most 100 confirmations",
                     "GetBalance(include_nonmempool=true) (the getbalances RPC view) is a pure function of chain + mempool; the default GetBalance and AvailableCoins additionally leave out coins spent by wallet transactions the wallet was "
                     "shown (notification history recorded at the validation interface) that are neither confirmed, in the mempool, conflicted by the chain or the mempool, nor abandoned",
                     "a transaction committed through the wallet while a mempool transaction already spends one of its inputs: whether the wallet holds its other inputs back is left undecided until the next load/rescan "
                     "(the wallet notices mempool conflicts when the conflicting transaction arrives; the property is silent about mempool conflicts)",
                     "a transaction committed through the wallet after the chain conflicted one of its ancestors counts as conflicted by the chain (its coins must be restored): the wallet does not do that -> violation class "
                     "tx-committed-after-ancestor-was-conflicted-keeps-coins-reserved (reported as a finding)"};
    e.expected_probes = {"receive_unconfirmed", "wallet_send_in_mempool", "wallet_send_multi_input", "send_chained_on_own_change", "wallet_send_double_spend_built", "held_double_spend_in_block", "wallet_tx_conflicted_by_chain",
                         "conflicted_via_ancestor", "wallet_tx_conflicted_by_mempool", "inactive_wallet_tx_reserving_coins", "coin_reserved_by_inactive_tx", "abandon_ok", "abandoned_wallet_tx", "reorg", "reorg_depth_ge_3",
                         "wallet_coinbase_disconnected", "coinbase_depth_100_immature", "coinbase_depth_101_mature", "untrusted_pending_nonzero", "trusted_unconfirmed_coin", "mempool_expiry", "wallet_loaded", "load_after_offline_reorg",
                         "node_restart", "rescan", "keypool_topup", "receive_replaced_in_mempool", "wallet_tx_replaced_in_mempool", "wallet_tx_removed_for_block_conflict", "joint_tx_in_mempool", "send_chained_on_unconfirmed_receive",
                         "abandon_tx_with_descendants", "invalidateblock", "reconsiderblock", "mempool_trimmed", "wallet_tx_evicted_for_size"};
    return e;
}
Engine g_engine = MakeEngine();
SIM_REGISTER_ENGINE(g_engine);

} // namespace
