// C32 — peer transports deliver exactly the messages sent, or detect tampering.
// compsim: two endpoints joined by two simulated byte pipes. Endpoints are the real V1Transport /
// V2Transport (test constructor: key, ent32 and garbage derived from the plan) or, for one side of
// some v2 runs, a scripted BIP324 peer written in this file (so that decoy packets, a non-empty
// version packet, decoys before the version packet and the long encoding of short-id types can be
// put on the wire). The simulator chooses every GetBytesToSend/MarkBytesSent/ReceivedBytes chunk size
// and the interleaving of the two directions (also mid-handshake), and injects stream faults into the
// bytes in flight (single bit flip, duplicated segment, deleted tail / permanent cut).
//
// Reference model: an independent BIP324 implementation (key schedule, FSChaCha20 length cipher,
// RFC8439 AEAD and the forward-secure packet cipher written from the BIP on top of the primitive
// ChaCha20 / Poly1305 / HKDF / EllSwift-ECDH classes only; BIP324Cipher, FSChaCha20,
// AEADChaCha20Poly1305 and FSChaCha20Poly1305 are NOT used by the model) that predicts every wire byte
// a real v2 sender emits and the session id, plus a v1 frame shadow parser over the bytes actually fed
// to a v1 receiver.
#include "../core/sim.h"

#include <chainparams.h>
#include <crypto/chacha20.h>
#include <crypto/hkdf_sha256_32.h>
#include <crypto/poly1305.h>
#include <hash.h>
#include <key.h>
#include <net.h>
#include <pubkey.h>
#include <span.h>
#include <uint256.h>

#include <algorithm>
#include <array>
#include <deque>
#include <memory>
#include <optional>

using namespace sim;

namespace {

using Bytes = std::vector<uint8_t>;
using Key32 = std::array<std::byte, 32>;

// ------------------------------------------------------------------------------------------------
// Independent BIP324 model
// ------------------------------------------------------------------------------------------------
constexpr uint64_t M_REKEY_INTERVAL = 224;
constexpr size_t M_TERM_LEN = 16;
constexpr size_t M_MAX_GARBAGE = 4095;
constexpr size_t M_MAX_PAYLOAD = 4'000'000;
constexpr size_t M_V1_HEADER = 24;

/** BIP324 short message type ids 1..28 (plus id 37 assigned by the code base under test). */
const char* const M_SHORT_IDS[] = {nullptr, "addr", "block", "blocktxn", "cmpctblock", "feefilter", "filteradd", "filterclear",
                                   "filterload", "getblocks", "getblocktxn", "getdata", "getheaders", "headers", "inv", "mempool",
                                   "merkleblock", "notfound", "ping", "pong", "sendcmpct", "tx", "getcfilters", "cfilter",
                                   "getcfheaders", "cfheaders", "getcfcheckpt", "cfcheckpt", "addrv2"};
constexpr int M_N_SHORT = 28;
const char* const M_LONG_TYPES[] = {"version", "verack", "getaddr", "sendheaders", "wtxidrelay", "sendaddrv2", "sendtxrcncl", "reject", "alert", "getblocktxn2"};

int ShortId(const std::string& t)
{
    for (int i = 1; i <= M_N_SHORT; ++i)
        if (t == M_SHORT_IDS[i]) return i;
    if (t == "feature") return 37;
    return 0;
}

void PutLE64(std::byte* p, uint64_t v)
{
    for (int i = 0; i < 8; ++i) p[i] = std::byte{(uint8_t)(v >> (8 * i))};
}

/** AEAD_CHACHA20_POLY1305 (RFC 8439 section 2.8): returns ciphertext || tag. */
Bytes Seal(const Key32& key, uint32_t nonce_lo, uint64_t nonce_hi, std::span<const uint8_t> aad, std::span<const uint8_t> plain)
{
    Bytes out(plain.size() + 16);
    std::byte polykey[32];
    {
        ChaCha20 c{key};
        c.Seek({nonce_lo, nonce_hi}, 0);
        c.Keystream(polykey);
    }
    if (!plain.empty()) {
        ChaCha20 c{key};
        c.Seek({nonce_lo, nonce_hi}, 1);
        c.Crypt(MakeByteSpan(plain), MakeWritableByteSpan(out).first(plain.size()));
    }
    static const std::byte zeros[16]{};
    Poly1305 mac{polykey};
    mac.Update(MakeByteSpan(aad));
    if (aad.size() % 16) mac.Update(std::span{zeros}.first(16 - aad.size() % 16));
    mac.Update(MakeByteSpan(out).first(plain.size()));
    if (plain.size() % 16) mac.Update(std::span{zeros}.first(16 - plain.size() % 16));
    std::byte lens[16];
    PutLE64(lens, aad.size());
    PutLE64(lens + 8, plain.size());
    mac.Update(lens);
    mac.Finalize(MakeWritableByteSpan(out).last(16));
    return out;
}

/** FSChaCha20 of BIP324 (length cipher): one continuous keystream per 224 chunks, then rekey from it. */
struct MLenCipher {
    Key32 key{};
    uint64_t chunk{0};
    uint64_t off{0}; //!< keystream bytes consumed in the current epoch

    void KeystreamBytes(std::byte* out, size_t n)
    {
        ChaCha20 c{key};
        c.Seek({0, chunk / M_REKEY_INTERVAL}, (uint32_t)(off / 64));
        std::byte skip[64];
        if (off % 64) c.Keystream(std::span{skip}.first(off % 64));
        c.Keystream(std::span{out, n});
        off += n;
    }
    void Crypt3(const uint8_t in[3], uint8_t out[3])
    {
        std::byte ks[3];
        KeystreamBytes(ks, 3);
        for (int i = 0; i < 3; ++i) out[i] = in[i] ^ (uint8_t)ks[i];
        if ((chunk + 1) % M_REKEY_INTERVAL == 0) {
            Key32 nk;
            KeystreamBytes(nk.data(), 32);
            key = nk;
            off = 0;
        }
        ++chunk;
    }
};

/** FSChaCha20Poly1305 of BIP324 (packet cipher). */
struct MPktCipher {
    Key32 key{};
    uint64_t ctr{0};

    Bytes Encrypt(std::span<const uint8_t> aad, std::span<const uint8_t> plain)
    {
        Bytes out = Seal(key, (uint32_t)(ctr % M_REKEY_INTERVAL), ctr / M_REKEY_INTERVAL, aad, plain);
        if ((ctr + 1) % M_REKEY_INTERVAL == 0) {
            const uint8_t zero32[32]{};
            Bytes nk = Seal(key, 0xffffffff, ctr / M_REKEY_INTERVAL, {}, zero32);
            memcpy(key.data(), nk.data(), 32);
        }
        ++ctr;
        return out;
    }
};

/** One sending direction of a BIP324 session. */
struct MDir {
    MLenCipher l;
    MPktCipher p;
    uint64_t packets{0};

    void Packet(Bytes& out, std::span<const uint8_t> contents, std::span<const uint8_t> aad, bool decoy)
    {
        const uint8_t len[3] = {(uint8_t)(contents.size() & 0xff), (uint8_t)((contents.size() >> 8) & 0xff), (uint8_t)((contents.size() >> 16) & 0xff)};
        uint8_t enc_len[3];
        l.Crypt3(len, enc_len);
        out.insert(out.end(), enc_len, enc_len + 3);
        Bytes plain(1 + contents.size());
        plain[0] = decoy ? 0x80 : 0x00;
        std::copy(contents.begin(), contents.end(), plain.begin() + 1);
        Bytes ct = p.Encrypt(aad, plain);
        out.insert(out.end(), ct.begin(), ct.end());
        ++packets;
    }
};

struct MSession {
    EllSwiftPubKey pub_i, pub_r;
    MDir from_i, from_r;
    Bytes term_i, term_r; //!< garbage terminator sent by the initiator / by the responder
    uint256 session_id;
};

MSession DeriveSession(const CKey& key_i, std::span<const std::byte> ent_i, const CKey& key_r, std::span<const std::byte> ent_r)
{
    MSession s;
    s.pub_i = key_i.EllSwiftCreate(ent_i);
    s.pub_r = key_r.EllSwiftCreate(ent_r);
    ECDHSecret secret = key_i.ComputeBIP324ECDHSecret(s.pub_r, s.pub_i, /*initiating=*/true);
    const auto& magic = Params().MessageStart();
    std::string salt = "bitcoin_v2_shared_secret";
    salt.append((const char*)magic.data(), magic.size());
    CHKDF_HMAC_SHA256_L32 hkdf(UCharCast(secret.data()), secret.size(), salt);
    auto expand = [&](const char* info, std::byte* out) { hkdf.Expand32(info, UCharCast(out)); };
    expand("initiator_L", s.from_i.l.key.data());
    expand("initiator_P", s.from_i.p.key.data());
    expand("responder_L", s.from_r.l.key.data());
    expand("responder_P", s.from_r.p.key.data());
    std::byte terms[32];
    expand("garbage_terminators", terms);
    s.term_i.assign(UCharCast(terms), UCharCast(terms) + 16);
    s.term_r.assign(UCharCast(terms) + 16, UCharCast(terms) + 32);
    std::byte sid[32];
    expand("session_id", sid);
    s.session_id = uint256(std::span<const unsigned char>{UCharCast(sid), 32});
    return s;
}

/** BIP324 packet contents of an application message. */
Bytes Contents(const std::string& type, const Bytes& payload, bool force_long)
{
    Bytes c;
    int id = force_long ? 0 : ShortId(type);
    if (id) {
        c.reserve(1 + payload.size());
        c.push_back((uint8_t)id);
    } else {
        c.assign(13, 0);
        std::copy(type.begin(), type.end(), c.begin() + 1);
    }
    c.insert(c.end(), payload.begin(), payload.end());
    return c;
}

// ------------------------------------------------------------------------------------------------
// Plan
// ------------------------------------------------------------------------------------------------
enum OpKind { SEND, PUMP, DELIVER, DECOY, FLUSH, BURST, FLIP, DUP, TRUNC, N_OPS };
enum Mode { V1_V1, V2_V2, MODEL_INIT_V2RESP, MODEL_RESP_V2INIT, V1_V2RESP_FALLBACK, N_MODES };

int64_t ChunkSize(Rng& rng)
{
    switch (rng.pick({3, 3, 2, 3, 1})) {
    case 0: return 0; // everything available
    case 1: return 1;
    case 2: return rng.range(2, 5);
    case 3: return rng.skewed(1, 120);
    default: return rng.skewed(1, 70000);
    }
}

int64_t GarbageLen(Rng& rng)
{
    switch (rng.pick({3, 4, 3, 1})) {
    case 0: return 0;
    case 1: return rng.range(1, 40);
    case 2: return rng.skewed(0, M_MAX_GARBAGE);
    default: return M_MAX_GARBAGE;
    }
}

Plan Gen(uint64_t seed, Tier tier)
{
    Rng rng(seed);
    Plan p;
    const int mode = (int)rng.pick({24, 40, 13, 13, 10});
    const bool has_model = mode == MODEL_INIT_V2RESP || mode == MODEL_RESP_V2INIT;
    const bool v2 = mode == V2_V2 || has_model;
    const bool faults = rng.chance(1, 2);
    p.knobs["mode"] = mode;
    p.knobs["faults"] = faults;
    p.knobs["seed_a"] = (int64_t)(rng.next() >> 1);
    p.knobs["seed_b"] = (int64_t)(rng.next() >> 1);
    p.knobs["garb_a"] = GarbageLen(rng);
    p.knobs["garb_b"] = GarbageLen(rng);
    p.knobs["verlen"] = has_model && rng.chance(1, 2) ? rng.skewed(1, 300) : 0;
    p.knobs["predecoys"] = has_model && rng.chance(1, 3) ? rng.range(1, 3) : 0;
    const bool rekey = v2 && rng.chance(1, 10);
    const bool big = rng.chance(1, 15);
    bool huge = rng.chance(1, 500);

    std::vector<uint32_t> w(N_OPS, 0);
    w[SEND] = 8 + rng.below(25);
    w[PUMP] = 8 + rng.below(30);
    w[DELIVER] = 8 + rng.below(30);
    w[DECOY] = has_model ? rng.below(12) : 0;
    w[FLUSH] = rng.below(4);
    const int nops = (int)rng.range(4, tier == Tier::THOROUGH ? 70 : 45);
    for (int i = 0; i < nops; ++i) {
        Op op;
        op.kind = (int)rng.pick(w);
        switch (op.kind) {
        case SEND: {
            int64_t size;
            if (huge) {
                size = M_MAX_PAYLOAD - (int64_t)rng.below(2);
                huge = false;
            } else if (big && rng.chance(1, 6)) {
                size = rng.skewed(1, 300000);
            } else {
                switch (rng.pick({2, 6, 3})) {
                case 0: size = 0; break;
                case 1: size = rng.skewed(1, 64); break;
                default: size = rng.skewed(1, 5000); break;
                }
            }
            // side, type selector, payload size, payload seed, force long type encoding (scripted peer only)
            op.a = {(int64_t)rng.below(2), (int64_t)(rng.next() >> 1), size, (int64_t)(rng.next() >> 1), (int64_t)rng.chance(1, 4)};
            break;
        }
        case PUMP:
            // side, chunk (0 = all), defer MarkBytesSent until the next send-side operation
            op.a = {(int64_t)rng.below(2), ChunkSize(rng), (int64_t)rng.chance(1, 6)};
            break;
        case DELIVER:
            op.a = {(int64_t)rng.below(2), ChunkSize(rng)};
            break;
        case DECOY:
            op.a = {0, rng.chance(1, 10) ? rng.skewed(0, 20000) : rng.skewed(0, 100), (int64_t)(rng.next() >> 1)};
            break;
        case FLUSH:
            break;
        }
        p.ops.push_back(op);
    }
    if (rekey) {
        int n = (int)rng.range(1, 2);
        for (int i = 0; i < n; ++i) {
            Op op(BURST, {(int64_t)rng.below(2), rng.range(190, 270), (int64_t)(rng.next() >> 1)});
            p.ops.insert(p.ops.begin() + rng.below(p.ops.size() + 1), op);
        }
    }
    if (faults) {
        int n = rng.chance(7, 10) ? 1 : (int)rng.range(2, 3);
        for (int i = 0; i < n; ++i) {
            Op op;
            switch (rng.pick({6, 2, 2})) {
            case 0:
                // dir, how (0 uniform / 1 near a frame start / 2 near the end of the bytes in flight), position, bit
                op = Op(FLIP, {(int64_t)rng.below(2), (int64_t)rng.below(3), (int64_t)(rng.next() >> 1), (int64_t)rng.below(8)});
                break;
            case 1:
                op = Op(DUP, {(int64_t)rng.below(2), (int64_t)(rng.next() >> 1), rng.skewed(1, 300)});
                break;
            default:
                op = Op(TRUNC, {(int64_t)rng.below(2), (int64_t)(rng.next() >> 1), (int64_t)rng.below(2)});
                break;
            }
            p.ops.insert(p.ops.begin() + rng.below(p.ops.size() + 1), op);
        }
    }
    return p;
}

std::string Describe(const Op& op)
{
    char b[200];
    switch (op.kind) {
    case SEND: snprintf(b, sizeof b, "side %ld queues message(type#%lx, %ld B payload, seed %lx%s)", (long)(op.arg(0) & 1), (long)op.arg(1), (long)op.arg(2), (long)op.arg(3), op.arg(4) ? ", long type encoding if scripted" : ""); break;
    case PUMP: snprintf(b, sizeof b, "side %ld: SetMessageToSend/GetBytesToSend, put %s bytes on the wire%s", (long)(op.arg(0) & 1), op.arg(1) ? std::to_string(op.arg(1)).c_str() : "all", op.arg(2) ? ", MarkBytesSent deferred" : ""); break;
    case DELIVER: snprintf(b, sizeof b, "direction %ld: ReceivedBytes(%s bytes in flight)", (long)(op.arg(0) & 1), op.arg(1) ? std::to_string(op.arg(1)).c_str() : "all"); break;
    case DECOY: snprintf(b, sizeof b, "scripted peer sends decoy packet (%ld B)", (long)op.arg(1)); break;
    case FLUSH: snprintf(b, sizeof b, "pump and deliver both directions until quiescent"); break;
    case BURST: snprintf(b, sizeof b, "side %ld sends %ld small messages back to back (rekey boundary)", (long)(op.arg(0) & 1), (long)op.arg(1)); break;
    case FLIP: snprintf(b, sizeof b, "FAULT flip bit %ld of a byte in flight, direction %ld (how=%ld pos#%lx)", (long)(op.arg(3) & 7), (long)(op.arg(0) & 1), (long)op.arg(1), (long)op.arg(2)); break;
    case DUP: snprintf(b, sizeof b, "FAULT duplicate a segment in flight, direction %ld (off#%lx len %ld)", (long)(op.arg(0) & 1), (long)op.arg(1), (long)op.arg(2)); break;
    case TRUNC: snprintf(b, sizeof b, "FAULT %s, direction %ld (keep#%lx)", op.arg(2) ? "delete tail of the bytes in flight" : "cut the stream (stall)", (long)(op.arg(0) & 1), (long)op.arg(1)); break;
    default: snprintf(b, sizeof b, "?");
    }
    return b;
}

// ------------------------------------------------------------------------------------------------
// Simulation
// ------------------------------------------------------------------------------------------------
struct Fifo {
    Bytes b;
    size_t rd{0};
    size_t size() const { return b.size() - rd; }
    void push(std::span<const uint8_t> s) { b.insert(b.end(), s.begin(), s.end()); }
    uint8_t* data() { return b.data() + rd; }
    void drop(size_t n)
    {
        rd += n;
        if (rd == b.size()) {
            b.clear();
            rd = 0;
        } else if (rd > (1u << 16) && rd > b.size() / 2) {
            b.erase(b.begin(), b.begin() + rd);
            rd = 0;
        }
    }
    Bytes pop(size_t n)
    {
        Bytes r(b.begin() + rd, b.begin() + rd + n);
        drop(n);
        return r;
    }
};

struct Msg {
    std::string type;
    Bytes payload;
};

enum SideKind { REAL_V1, REAL_V2, SCRIPTED_V2 };

struct Side {
    SideKind kind{REAL_V1};
    bool initiator{false};
    std::unique_ptr<Transport> tr;
    std::deque<CSerializedNetMsg> queue; //!< application send queue (like CNode::vSendMsg)
    std::vector<Msg> sent;               //!< every message handed to this side, in order
    size_t accepted{0};                  //!< how many of them the transport (or the script) took
    bool wire_check{false};              //!< real v2 sender: compare emitted bytes with `exp`
    Fifo exp;                            //!< bytes the model expects this real v2 sender to emit next
    uint64_t emitted{0};                 //!< bytes taken from this sender so far
    uint64_t framed{0};                  //!< stream offset at which the next frame/packet of this sender starts
    size_t pending_mark{0};              //!< bytes already on the wire whose MarkBytesSent is deferred
    Fifo out;                            //!< scripted peer: encoded, not yet on the wire
    MDir* enc{nullptr};                  //!< model cipher state of this side's sending direction
    Bytes garbage;
    bool sid_seen{false};
};

struct Pipe {
    Fifo buf;             //!< bytes in flight
    uint64_t head{0};     //!< sender stream offset of buf[0] (meaningful while !shifted)
    bool shifted{false};  //!< a dup/deletion changed offsets
    bool cut{false};      //!< everything sent from now on is lost
    bool cut_fired{false};
    bool tainted{false};  //!< some fault altered this direction
    bool dead{false};     //!< receiver reported a transport error / connection closed
    std::vector<uint64_t> bounds; //!< stream offsets where frames start
    Bytes rxframe;        //!< v1 shadow: bytes consumed by the receiver since the last delivered frame
    size_t delivered{0};  //!< messages delivered (reject_message=false)
    uint64_t fed{0};
};

struct Sim {
    Ctx& ctx;
    int mode;
    bool faults_enabled;
    Side side[2];
    Pipe pipe[2]; //!< pipe[d]: side d -> side 1-d
    std::optional<MSession> ms;
    bool faulted{false};
    bool v1_shadow{false};
    bool detected{false};
    int64_t clock_us{0};

    explicit Sim(Ctx& c) : ctx(c), mode((int)std::clamp<int64_t>(c.knob("mode", 0), 0, N_MODES - 1)), faults_enabled(c.knob("faults", 0) != 0) { Setup(); }

    static CKey MakeKey(Rng& r)
    {
        CKey k;
        for (;;) {
            unsigned char b[32];
            r.fill(b, 32);
            k.Set(b, b + 32, true);
            if (k.IsValid()) return k;
        }
    }

    void Setup()
    {
        v1_shadow = mode == V1_V1 || mode == V1_V2RESP_FALLBACK;
        if (mode == V1_V1) {
            for (int s = 0; s < 2; ++s) {
                side[s].kind = REAL_V1;
                side[s].tr = std::make_unique<V1Transport>(s);
                pipe[s].bounds = {0};
            }
            return;
        }
        // Everything else has at least one v2 endpoint. A = side 0, B = side 1.
        // V2_V2: A initiator. MODEL_INIT_V2RESP: A scripted initiator, B real responder.
        // MODEL_RESP_V2INIT: A scripted responder, B real initiator. FALLBACK: A real v1, B real v2 responder.
        const bool a_initiates = mode != MODEL_RESP_V2INIT;
        CKey key[2];
        std::array<std::byte, 32> ent[2];
        for (int s = 0; s < 2; ++s) {
            Rng r((uint64_t)ctx.knob(s == 0 ? "seed_a" : "seed_b", s + 1));
            key[s] = MakeKey(r);
            r.fill((unsigned char*)ent[s].data(), 32);
            size_t glen = (size_t)std::clamp<int64_t>(ctx.knob(s == 0 ? "garb_a" : "garb_b", 0), 0, M_MAX_GARBAGE);
            side[s].garbage.resize(glen);
            r.fill(side[s].garbage.data(), glen);
            side[s].initiator = (s == 0) == a_initiates;
            if (glen == M_MAX_GARBAGE) ctx.probe("garbage_max");
            if (glen == 0) ctx.probe("garbage_empty");
        }
        if (mode == V1_V2RESP_FALLBACK) {
            side[0].kind = REAL_V1;
            side[0].tr = std::make_unique<V1Transport>(0);
            side[1].kind = REAL_V2;
            side[1].tr = std::make_unique<V2Transport>(1, /*initiating=*/false, key[1], ent[1], side[1].garbage);
            pipe[0].bounds = pipe[1].bounds = {0};
            return;
        }
        const int i = a_initiates ? 0 : 1, r = 1 - i;
        ms = DeriveSession(key[i], ent[i], key[r], ent[r]);
        side[i].enc = &ms->from_i;
        side[r].enc = &ms->from_r;
        for (int s = 0; s < 2; ++s) {
            Side& sd = side[s];
            const bool scripted = s == 0 && mode != V2_V2;
            sd.kind = scripted ? SCRIPTED_V2 : REAL_V2;
            const EllSwiftPubKey& pub = sd.initiator ? ms->pub_i : ms->pub_r;
            const Bytes& term = sd.initiator ? ms->term_i : ms->term_r;
            Bytes hs(UCharCast(pub.data()), UCharCast(pub.data()) + pub.size());
            hs.insert(hs.end(), sd.garbage.begin(), sd.garbage.end());
            hs.insert(hs.end(), term.begin(), term.end());
            pipe[s].bounds = {0, 64, 64 + sd.garbage.size(), hs.size()};
            bool first = true;
            if (scripted) {
                // decoys in front of the version packet; the first packet authenticates the garbage
                int pre = (int)std::clamp<int64_t>(ctx.knob("predecoys", 0), 0, 8);
                Rng r2((uint64_t)ctx.knob("seed_a", 1) ^ 0x5ca1ab1e);
                for (int k = 0; k < pre; ++k) {
                    Bytes junk(r2.below(40));
                    r2.fill(junk.data(), junk.size());
                    sd.enc->Packet(hs, junk, first ? std::span<const uint8_t>{sd.garbage} : std::span<const uint8_t>{}, /*decoy=*/true);
                    pipe[s].bounds.push_back(hs.size());
                    first = false;
                    ctx.probe("decoy_before_version");
                }
                Bytes ver((size_t)std::clamp<int64_t>(ctx.knob("verlen", 0), 0, 4096));
                r2.fill(ver.data(), ver.size());
                sd.enc->Packet(hs, ver, first ? std::span<const uint8_t>{sd.garbage} : std::span<const uint8_t>{}, false);
                if (!ver.empty()) ctx.probe("version_packet_nonempty");
                sd.out.push(hs);
            } else {
                sd.enc->Packet(hs, {}, sd.garbage, false);
                sd.exp.push(hs);
                sd.wire_check = true;
                sd.tr = std::make_unique<V2Transport>(s, sd.initiator, key[s], ent[s], sd.garbage);
            }
            sd.framed = hs.size();
            pipe[s].bounds.push_back(hs.size());
        }
    }

    bool ReceiverIsReal(int d) const { return side[1 - d].kind != SCRIPTED_V2; }
    /** is direction d carrying (authenticated) v2 traffic towards a real receiver */
    bool DirIsV2(int d) const { return mode == V2_V2 || mode == MODEL_INIT_V2RESP || mode == MODEL_RESP_V2INIT; }

    static std::string PickType(uint64_t sel)
    {
        Rng r(sel);
        switch (r.below(10)) {
        case 0: case 1: case 2: case 3: case 4: {
            int id = (int)r.below(M_N_SHORT + 1);
            return id == 0 ? "feature" : M_SHORT_IDS[id];
        }
        case 5: case 6:
            return M_LONG_TYPES[r.below(std::size(M_LONG_TYPES))];
        default: {
            std::string t((size_t)r.range(1, 12), ' ');
            for (char& ch : t) ch = (char)r.range(0x20, 0x7e);
            return t;
        }
        }
    }

    // ---------------------------------------------------------------- sending side
    void Enqueue(int s, std::string type, Bytes payload, bool force_long)
    {
        Side& sd = side[s];
        if (mode == V1_V2RESP_FALLBACK && s == 0 && sd.sent.empty()) type = "version"; // a v1 peer opens with VERSION
        if (payload.size() >= 100000) ctx.probe("payload_100k_or_more");
        if (payload.size() >= M_MAX_PAYLOAD - 1) ctx.probe("payload_at_limit");
        if (sd.kind == SCRIPTED_V2) {
            Bytes pkt;
            const bool long_enc = force_long && ShortId(type) != 0;
            sd.enc->Packet(pkt, Contents(type, payload, force_long), {}, false);
            if (long_enc) ctx.probe("long_encoding_of_short_type");
            sd.framed += pkt.size();
            pipe[s].bounds.push_back(sd.framed);
            sd.out.push(pkt);
            sd.sent.push_back({std::move(type), std::move(payload)});
            ++sd.accepted;
            return;
        }
        CSerializedNetMsg m;
        m.m_type = type;
        m.data = payload;
        sd.queue.push_back(std::move(m));
        sd.sent.push_back({std::move(type), std::move(payload)});
    }

    void CommitMark(int s)
    {
        Side& sd = side[s];
        if (sd.pending_mark) {
            sd.tr->MarkBytesSent(sd.pending_mark);
            sd.pending_mark = 0;
        }
    }

    void ToWire(int s, std::span<const uint8_t> bytes)
    {
        Pipe& p = pipe[s];
        side[s].emitted += bytes.size();
        if (p.cut) {
            if (!bytes.empty()) {
                if (!p.cut_fired) MarkFault(p, "stream_cut");
                p.cut_fired = true;
                p.shifted = true;
            }
            return;
        }
        if (p.dead || !ReceiverIsReal(s)) return; // closed connection / scripted peer does not read
        if (p.buf.size() == 0 && !p.shifted) p.head = side[s].emitted - bytes.size();
        p.buf.push(bytes);
    }

    /** One SocketSendData-like step. Returns true if anything happened. */
    bool Pump(int s, size_t n, bool defer)
    {
        Side& sd = side[s];
        if (sd.kind == SCRIPTED_V2) {
            size_t k = n == 0 ? sd.out.size() : std::min(n, sd.out.size());
            if (k == 0) return false;
            Bytes chunk = sd.out.pop(k);
            ToWire(s, chunk);
            return true;
        }
        CommitMark(s);
        bool took = false;
        if (!sd.queue.empty()) {
            const Msg& rec = sd.sent[sd.accepted];
            if (sd.tr->SetMessageToSend(sd.queue.front())) {
                took = true;
                sd.queue.pop_front();
                ++sd.accepted;
                size_t wire_len;
                if (sd.wire_check) {
                    Bytes pkt;
                    sd.enc->Packet(pkt, Contents(rec.type, rec.payload, false), {}, false);
                    wire_len = pkt.size();
                    if (!faulted) sd.exp.push(pkt);
                } else {
                    wire_len = M_V1_HEADER + rec.payload.size();
                }
                sd.framed += wire_len;
                pipe[s].bounds.push_back(sd.framed);
            } else if (sd.queue.front().m_type != rec.type || sd.queue.front().data != rec.payload) {
                ctx.failf("refused-message-modified", "SetMessageToSend returned false but changed the message (side %d, message %zu)", s, sd.accepted);
            }
        }
        const auto& [data, more, mtype] = sd.tr->GetBytesToSend(!sd.queue.empty());
        (void)more;
        (void)mtype;
        size_t k = n == 0 ? data.size() : std::min(n, data.size());
        if (k == 0) return took;
        Bytes chunk(data.begin(), data.begin() + k);
        if (sd.wire_check && !faulted) {
            // the ciphertext a real v2 sender emits must be what the independent BIP324 encoder produces
            if (sd.exp.size() < k || memcmp(sd.exp.data(), chunk.data(), k) != 0) {
                size_t i = 0;
                while (i < k && i < sd.exp.size() && sd.exp.data()[i] == chunk[i]) ++i;
                ctx.failf("v2-wire-bytes-differ-from-independent-bip324", "side %d (%s): stream offset %llu: transport emitted %zu bytes, model expects %zu more; first difference at +%zu",
                          s, sd.initiator ? "initiator" : "responder", (unsigned long long)sd.emitted, k, sd.exp.size(), i);
            }
            sd.exp.drop(k);
            ctx.probe("v2_wire_bytes_compared", k);
        }
        if (k < data.size()) ctx.probe("partial_send");
        ToWire(s, chunk);
        if (defer) {
            sd.pending_mark = k;
            ctx.probe("deferred_mark_bytes_sent");
        } else {
            sd.tr->MarkBytesSent(k);
        }
        return true;
    }

    bool PumpAll(int s)
    {
        bool any = false;
        // a correct transport needs at most one step per message plus one per v1 payload
        const size_t limit = 8 + 3 * side[s].queue.size();
        for (size_t guard = 0; guard < limit && Pump(s, 0, false); ++guard) any = true;
        return any;
    }

    // ---------------------------------------------------------------- receiving side
    void CloseConnection()
    {
        for (auto& p : pipe) {
            p.dead = true;
            p.buf.drop(p.buf.size());
        }
    }

    void CheckSessionIds()
    {
        if (!ms) return;
        std::optional<uint256> seen[2];
        for (int s = 0; s < 2; ++s) {
            if (side[s].kind != REAL_V2) continue;
            auto info = side[s].tr->GetInfo();
            if (!info.session_id) continue;
            seen[s] = info.session_id;
            if (!faulted && *info.session_id != ms->session_id)
                ctx.failf("v2-session-id-differs-from-independent-bip324", "side %d reports session id %s, model derives %s", s, info.session_id->ToString().c_str(), ms->session_id.ToString().c_str());
            if (!side[s].sid_seen) {
                side[s].sid_seen = true;
                ctx.probe("v2_handshake_complete");
            }
        }
        if (seen[0] && seen[1]) {
            if (*seen[0] != *seen[1]) ctx.failf("v2-session-ids-differ", "initiator and responder report different session ids");
            ctx.probe("session_ids_compared");
        }
    }

    /** The transport of side 1-d has a complete message. */
    void TakeMessage(int d, int& n_ok, int& n_rej)
    {
        Pipe& p = pipe[d];
        Side& rx = side[1 - d];
        const Side& tx = side[d];
        bool reject = false;
        clock_us += 1000;
        CNetMessage m = rx.tr->GetReceivedMessage(NodeClock::time_point{std::chrono::microseconds{clock_us}}, reject);
        const uint8_t* got = UCharCast(m.m_recv.data());
        const size_t got_len = m.m_recv.size();
        (reject ? n_rej : n_ok)++;

        if (v1_shadow) {
            // The bytes the receiver consumed since the previous frame are exactly one v1 frame.
            const Bytes& f = p.rxframe;
            uint32_t size = f.size() >= M_V1_HEADER ? (uint32_t)f[16] | (uint32_t)f[17] << 8 | (uint32_t)f[18] << 16 | (uint32_t)f[19] << 24 : 0;
            if (f.size() < M_V1_HEADER || f.size() != M_V1_HEADER + (size_t)size)
                ctx.failf("v1-frame-boundary-wrong", "direction %d: message reported complete after %zu consumed bytes, header announces %u payload bytes", d, f.size(), size);
            if (!reject) {
                // clause: a v1 message whose payload does not match its checksum is never delivered
                uint256 h = Hash(std::span<const uint8_t>{got, got_len});
                if (memcmp(h.begin(), f.data() + 20, 4) != 0)
                    ctx.failf("v1-delivered-message-with-wrong-checksum", "direction %d: delivered %zu-byte '%s' whose double-SHA256 does not match the header checksum on the wire", d, got_len, SanitizeType(m.m_type).c_str());
            } else {
                uint256 h = Hash(std::span<const uint8_t>{f.data() + M_V1_HEADER, f.size() - M_V1_HEADER});
                if (memcmp(h.begin(), f.data() + 20, 4) != 0) ctx.probe("v1_bad_checksum_rejected");
            }
            p.rxframe.clear();
        }

        const bool v2dir = DirIsV2(d);
        const bool exact = v2dir ? true : (mode == V1_V1 ? !p.tainted : !faulted);
        if (reject) {
            if (v2dir ? !faulted : exact)
                ctx.failf("valid-message-rejected", "direction %d: message %zu reported with reject_message=true although nothing was tampered with", d, p.delivered);
            return;
        }
        if (exact) {
            if (p.delivered >= tx.sent.size())
                ctx.failf("delivered-message-never-sent", "direction %d: receiver produced message #%zu ('%s', %zu B) but only %zu were sent", d, p.delivered, SanitizeType(m.m_type).c_str(), got_len, tx.sent.size());
            const Msg& want = tx.sent[p.delivered];
            if (m.m_type != want.type)
                ctx.failf(faulted ? "tampered-stream-delivered-different-message" : "delivered-type-differs", "direction %d message #%zu: type '%s' delivered, '%s' sent", d, p.delivered, SanitizeType(m.m_type).c_str(), SanitizeType(want.type).c_str());
            if (got_len != want.payload.size() || (got_len && memcmp(got, want.payload.data(), got_len) != 0))
                ctx.failf(faulted ? "tampered-stream-delivered-different-message" : "delivered-payload-differs", "direction %d message #%zu ('%s'): payload of %zu B delivered, %zu B sent%s", d, p.delivered, SanitizeType(want.type).c_str(), got_len, want.payload.size(),
                          got_len == want.payload.size() ? " (same length, different bytes)" : "");
            ctx.probe(v2dir ? "v2_message_delivered_exact" : "v1_message_delivered_exact");
            if (v2dir && tx.enc && tx.enc->packets > M_REKEY_INTERVAL + 1 && p.delivered + 1 == tx.sent.size() && tx.sent.size() > 0) ctx.probe("delivered_after_rekey");
            ctx.nontrivial = true;
        } else {
            ctx.probe("v1_message_delivered_after_fault");
        }
        ++p.delivered;
    }

    static std::string SanitizeType(const std::string& t)
    {
        std::string r;
        for (unsigned char c : t.substr(0, 16)) r += (c >= 0x20 && c < 0x7f && c != '%') ? (char)c : '?';
        return r;
    }

    /** Like CNode::ReceiveMsgBytes: feed one chunk, fetch every message that completes. */
    bool Deliver(int d, size_t n, int* ok_out = nullptr, int* rej_out = nullptr)
    {
        Pipe& p = pipe[d];
        if (!ReceiverIsReal(d) || p.dead) {
            p.buf.drop(p.buf.size());
            return false;
        }
        size_t k = n == 0 ? p.buf.size() : std::min(n, p.buf.size());
        if (k == 0) return false;
        Side& rx = side[1 - d];
        Bytes chunk = p.buf.pop(k);
        p.head += k;
        p.fed += k;
        if (k == 1) ctx.probe("one_byte_chunk");
        std::span<const uint8_t> s{chunk};
        int n_ok = 0, n_rej = 0;
        while (!s.empty()) {
            const size_t before = s.size();
            const bool ok = rx.tr->ReceivedBytes(s);
            const size_t used = before - s.size();
            if (v1_shadow) p.rxframe.insert(p.rxframe.end(), chunk.end() - before, chunk.end() - before + used);
            if (!ok) {
                const bool excused = mode == V1_V1 ? p.tainted : faulted;
                if (!excused) ctx.failf("transport-error-without-fault", "direction %d: ReceivedBytes returned false after %llu untampered bytes", d, (unsigned long long)(p.fed - before));
                ctx.probe("tamper_detected_disconnect");
                detected = true;
                ctx.nontrivial = true;
                CloseConnection();
                break;
            }
            if (rx.tr->ReceivedMessageComplete()) {
                TakeMessage(d, n_ok, n_rej);
            } else if (used == 0) {
                ctx.failf("receiver-makes-no-progress", "direction %d: ReceivedBytes consumed nothing of %zu bytes and no message is complete", d, before);
            }
        }
        CheckSessionIds();
        if (ok_out) *ok_out += n_ok;
        if (rej_out) *rej_out += n_rej;
        return true;
    }

    bool DeliverAll(int d) { return Deliver(d, 0); }

    void Flush()
    {
        const size_t limit = 64 + 4 * (side[0].queue.size() + side[1].queue.size());
        for (size_t guard = 0; guard < limit; ++guard) {
            bool any = false;
            any |= PumpAll(0);
            any |= PumpAll(1);
            any |= DeliverAll(0);
            any |= DeliverAll(1);
            if (!any) break;
        }
    }

    // ---------------------------------------------------------------- faults
    /** Pick the fault's direction (one with a real receiver) and make sure something is in flight. */
    Pipe* FaultTarget(const Op& op, int& d)
    {
        if (!faults_enabled) return nullptr;
        d = (int)op.mod(0, 2);
        if (!ReceiverIsReal(d)) d = 1 - d;
        Pipe& p = pipe[d];
        if (p.dead) return nullptr;
        if (p.buf.size() == 0 && !p.cut) PumpAll(d);
        return &p;
    }

    void MarkFault(Pipe& p, const char* kind)
    {
        p.tainted = true;
        faulted = true;
        ctx.fault(kind);
        // Everything the model predicted for real senders may legitimately change from here on.
        for (auto& sd : side) sd.exp = Fifo{};
    }

    const char* Region(int d, uint64_t off) const
    {
        if (!ms || side[d].kind == REAL_V1) return "v1";
        size_t g = side[d].garbage.size();
        if (off < 64) return "v2_key";
        if (off < 64 + g) return "v2_garbage";
        if (off < 64 + g + M_TERM_LEN) return "v2_garbage_terminator";
        return "v2_packets";
    }

    // ---------------------------------------------------------------- main loop
    uint64_t Fingerprint() const
    {
        uint64_t h = mode + 1;
        auto bucket = [](size_t v) { int b = 0; while (v) { ++b; v >>= 1; } return (uint64_t)b; };
        for (int s = 0; s < 2; ++s) {
            h = mix64(h, side[s].sent.size() * 131 + side[s].accepted);
            h = mix64(h, pipe[s].delivered * 1009 + bucket(pipe[s].buf.size()) * 17 + pipe[s].dead * 5 + pipe[s].tainted * 3 + pipe[s].cut);
            h = mix64(h, side[s].sid_seen * 2 + (side[s].pending_mark != 0));
        }
        return h;
    }

    void Run()
    {
        for (const Op& op : ctx.plan.ops) {
            switch (op.kind) {
            case SEND: {
                int s = (int)op.mod(0, 2);
                size_t size = (size_t)std::clamp<int64_t>(op.arg(2), 0, M_MAX_PAYLOAD);
                Bytes payload(size);
                Rng r((uint64_t)op.arg(3));
                r.fill(payload.data(), size);
                std::string type = PickType((uint64_t)op.arg(1));
                Enqueue(s, type, std::move(payload), op.arg(4) & 1);
                ctx.evf("send s%d '%s' %zu", s, SanitizeType(side[s].sent.back().type).c_str(), size);
                break;
            }
            case PUMP: {
                int s = (int)op.mod(0, 2);
                uint64_t before = side[s].emitted;
                size_t acc = side[s].accepted;
                Pump(s, (size_t)std::clamp<int64_t>(op.arg(1), 0, 1 << 30), op.arg(2) & 1);
                ctx.evf("pump s%d +%llu acc%zu", s, (unsigned long long)(side[s].emitted - before), side[s].accepted - acc);
                break;
            }
            case DELIVER: {
                int d = (int)op.mod(0, 2);
                int ok = 0, rej = 0;
                uint64_t before = pipe[d].fed;
                Deliver(d, (size_t)std::clamp<int64_t>(op.arg(1), 0, 1 << 30), &ok, &rej);
                ctx.evf("deliver d%d +%llu ok%d rej%d dead%d", d, (unsigned long long)(pipe[d].fed - before), ok, rej, (int)pipe[d].dead);
                break;
            }
            case DECOY: {
                int s = side[0].kind == SCRIPTED_V2 ? 0 : -1;
                if (s < 0) { ctx.ev("decoy n/a"); break; }
                Bytes junk((size_t)std::clamp<int64_t>(op.arg(1), 0, 100000));
                Rng r((uint64_t)op.arg(2));
                r.fill(junk.data(), junk.size());
                Bytes pkt;
                side[s].enc->Packet(pkt, junk, {}, /*decoy=*/true);
                side[s].framed += pkt.size();
                pipe[s].bounds.push_back(side[s].framed);
                side[s].out.push(pkt);
                ctx.probe("decoy_packet_sent");
                ctx.evf("decoy %zu", junk.size());
                break;
            }
            case FLUSH:
                Flush();
                ctx.evf("flush del %zu/%zu", pipe[0].delivered, pipe[1].delivered);
                break;
            case BURST: {
                int s = (int)op.mod(0, 2);
                int count = (int)std::clamp<int64_t>(op.arg(1), 0, 2000);
                Flush();
                for (int i = 0; i < count && !pipe[s].dead; ++i) {
                    Rng r(mix64((uint64_t)op.arg(2), i));
                    Bytes payload(r.below(40));
                    r.fill(payload.data(), payload.size());
                    Enqueue(s, PickType(r.next()), std::move(payload), r.chance(1, 4));
                    PumpAll(s);
                    DeliverAll(s);
                }
                if (side[s].enc && side[s].enc->packets > M_REKEY_INTERVAL) ctx.probe("rekey_boundary_crossed");
                ctx.evf("burst s%d n%d del %zu", s, count, pipe[s].delivered);
                break;
            }
            case FLIP: {
                int d;
                Pipe* p = FaultTarget(op, d);
                if (!p || p->buf.size() == 0) { ctx.ev("flip n/a"); break; }
                const size_t S = p->buf.size();
                size_t pos = op.mod(2, S);
                int how = (int)op.mod(1, 3);
                if (how == 1 && !p->shifted) {
                    // near the start of a frame/packet in flight: length, header, type bytes, v1 checksum
                    std::vector<uint64_t> in;
                    for (uint64_t b : p->bounds)
                        if (b >= p->head && b < p->head + S) in.push_back(b);
                    if (!in.empty()) {
                        uint64_t b = in[((uint64_t)op.arg(2) >> 8) % in.size()];
                        size_t cand = (size_t)(b - p->head) + (size_t)(op.arg(2) & 0xff) % 28;
                        if (cand < S) pos = cand;
                    }
                } else if (how == 2) {
                    pos = S - 1 - (size_t)((uint64_t)op.arg(2) % std::min<size_t>(S, 20));
                }
                p->buf.data()[pos] ^= (uint8_t)(1u << (op.arg(3) & 7));
                MarkFault(*p, "bit_flip");
                if (!p->shifted) ctx.probe((std::string("bit_flip_in_") + Region(d, p->head + pos)).c_str());
                ctx.evf("flip d%d @%zu/%zu", d, pos, S);
                break;
            }
            case DUP: {
                int d;
                Pipe* p = FaultTarget(op, d);
                if (!p || p->buf.size() == 0) { ctx.ev("dup n/a"); break; }
                const size_t S = p->buf.size();
                size_t off = op.mod(1, S);
                size_t len = 1 + (size_t)((uint64_t)std::max<int64_t>(0, op.arg(2)) % std::min<size_t>(S - off, 4096));
                Bytes all = p->buf.pop(S);
                Bytes seg(all.begin() + off, all.begin() + off + len);
                all.insert(all.begin() + off + len, seg.begin(), seg.end());
                p->buf.push(all);
                p->shifted = true;
                MarkFault(*p, "segment_duplicated");
                ctx.evf("dup d%d @%zu+%zu/%zu", d, off, len, S);
                break;
            }
            case TRUNC: {
                int d;
                Pipe* p = FaultTarget(op, d);
                if (!p) { ctx.ev("trunc n/a"); break; }
                const size_t S = p->buf.size();
                size_t keep = op.mod(1, S + 1);
                bool resume = op.arg(2) & 1;
                if (keep < S) {
                    Bytes all = p->buf.pop(S);
                    all.resize(keep);
                    p->buf.push(all);
                    p->shifted = true;
                    MarkFault(*p, resume ? "segment_deleted" : "stream_cut");
                    if (!resume) p->cut_fired = true;
                }
                if (!resume) p->cut = true;
                ctx.evf("trunc d%d keep %zu/%zu resume%d", d, keep, S, (int)resume);
                break;
            }
            default:
                ctx.ev("?");
            }
            ctx.fingerprint(Fingerprint());
        }

        // Let everything still in the transports and on the wire arrive, then judge completeness.
        Flush();
        ctx.evf("end del %zu/%zu sent %zu/%zu faulted%d dead%d", pipe[0].delivered, pipe[1].delivered, side[0].sent.size(), side[1].sent.size(), (int)faulted, (int)pipe[0].dead);
        if (faulted) {
            ctx.probe(detected ? "faulted_run_ended_disconnected" : "faulted_run_ended_stalled_or_intact");
            return;
        }
        for (int d = 0; d < 2; ++d) {
            const Side& tx = side[d];
            if (mode == V1_V2RESP_FALLBACK && side[0].sent.empty()) break; // the responder is still waiting for the first byte
            if (tx.kind != SCRIPTED_V2) {
                if (!tx.queue.empty() || tx.accepted != tx.sent.size())
                    ctx.failf("message-never-accepted-for-sending", "side %d: %zu of %zu messages were taken by SetMessageToSend although the stream is quiescent", d, tx.accepted, tx.sent.size());
                if (tx.wire_check && tx.exp.size() != 0)
                    ctx.failf("v2-wire-bytes-differ-from-independent-bip324", "side %d: transport stopped %zu bytes short of the stream the model expects", d, tx.exp.size());
            }
            if (ReceiverIsReal(d) && pipe[d].delivered != tx.sent.size())
                ctx.failf("message-not-delivered", "direction %d: %zu messages sent, %zu delivered, nothing left in flight, no fault injected", d, tx.sent.size(), pipe[d].delivered);
        }
        if (ms) {
            for (int s = 0; s < 2; ++s)
                if (side[s].kind == REAL_V2 && !side[s].sid_seen)
                    ctx.failf("v2-handshake-incomplete", "side %d reports no session id after an untampered, fully delivered handshake", s);
        }
        if (mode == V1_V2RESP_FALLBACK && !side[0].sent.empty()) {
            if (side[1].tr->GetInfo().transport_type != TransportProtocolType::V1)
                ctx.failf("v1-fallback-not-taken", "v2 responder did not fall back to v1 for a peer opening with a v1 VERSION header");
            ctx.probe("v1_fallback");
        }
        if (side[0].kind == SCRIPTED_V2 && side[0].enc->packets > side[0].sent.size() + 1 && pipe[0].delivered == side[0].sent.size() && !side[0].sent.empty())
            ctx.probe("decoys_ignored_messages_exact");
    }
};

void Run(Ctx& ctx)
{
    Sim s(ctx);
    s.Run();
}

Engine MakeEngine()
{
    Engine e;
    e.prop = "C32";
    e.name = "compsim/transport";
    e.level = "exploration";
    e.gen = Gen;
    e.run = Run;
    e.describe = Describe;
    e.chunk = 200;
    e.quick_runs = 200000;
    e.thorough_runs = 3000000;
    e.quick_budget_s = 50;
    e.thorough_budget_s = 900;
    e.rule = "seeded plans of 4-70 operations (queue message / one SetMessageToSend+GetBytesToSend+MarkBytesSent step with a chosen chunk size, optionally "
             "with MarkBytesSent deferred / ReceivedBytes of a chosen chunk of the bytes in flight / decoy packet / flush / 190-270-message burst across the "
             "224-packet rekey boundary) over a pair of endpoints joined by two byte pipes, in five pairings chosen per run: V1<->V1, V2 initiator<->V2 "
             "responder, scripted BIP324 initiator->real V2 responder, scripted BIP324 responder->real V2 initiator, V1->V2 responder (v1 fallback); keys, "
             "ellswift entropy, garbage (0..4095 B), version-packet contents and decoys-before-version are per-run knobs; message types are all short-id "
             "types, other known types and random printable 1-12 byte types, payloads 0 B .. 4,000,000 B (mostly small). Half of the runs inject 1-3 stream "
             "faults into the bytes in flight (single bit flip at a uniform position / near a frame start / near the end, duplicated segment, deleted tail, "
             "permanent cut). Oracle: fault-free: every real receiver yields exactly the sent (type,payload) sequence and nothing is lost once the pipes are "
             "drained; every byte a real v2 sender emits equals the output of an independent BIP324 encoder, both session ids equal the model's; faulted: a "
             "v2 receiver never yields a message that differs from the sent sequence at the same index, a v1 receiver never yields (reject_message=false) a "
             "message whose payload does not hash to the checksum in the header that was on the wire. non-trivial = at least one message was delivered and "
             "compared, or a tampered stream was refused; distinct = fingerprints of (pairing, sent/accepted/delivered counts, in-flight size class, "
             "dead/tainted/cut flags, handshake flags) after each operation (first 64 per run)";
    e.real_components = {"V1Transport (net.cpp)", "V2Transport (net.cpp)", "BIP324Cipher (bip324.cpp)", "FSChaCha20Poly1305 / AEADChaCha20Poly1305 (crypto/chacha20poly1305.cpp)",
                         "FSChaCha20 (crypto/chacha20.cpp)", "CMessageHeader (protocol.cpp)"};
    e.stub_components = {"sockets: two in-memory byte pipes with simulator-chosen chunking", "CConnman/CNode send and receive loops: re-enacted by the engine (SocketSendData / ReceiveMsgBytes call pattern)",
                         "one v2 endpoint in the scripted pairings: the engine's own BIP324 implementation"};
    e.assumptions = {"the primitive ChaCha20, Poly1305, HKDF-SHA256, SHA256 and EllSwift create/ECDH functions are shared between model and implementation (they are other properties' concern)",
                     "single-threaded: the send and receive halves of a transport are never entered concurrently",
                     "the real v2 sender never emits decoys, so decoys, non-empty version packets and long encodings of short-id types only reach a receiver from the scripted peer",
                     "an accidental garbage-terminator or AEAD tag collision (probability below 2^-100 per run) would be reported as a violation",
                     "message types are restricted to 1-12 bytes in 0x20..0x7E (what CMessageHeader::IsMessageTypeValid accepts)"};
    e.expected_probes = {"v1_message_delivered_exact", "v2_message_delivered_exact", "v2_handshake_complete", "session_ids_compared", "v2_wire_bytes_compared",
                         "rekey_boundary_crossed", "delivered_after_rekey", "decoy_packet_sent", "decoys_ignored_messages_exact", "decoy_before_version",
                         "version_packet_nonempty", "long_encoding_of_short_type", "v1_fallback", "garbage_max", "garbage_empty", "one_byte_chunk", "partial_send",
                         "deferred_mark_bytes_sent", "payload_100k_or_more", "payload_at_limit", "tamper_detected_disconnect", "v1_bad_checksum_rejected",
                         "bit_flip_in_v1", "bit_flip_in_v2_key", "bit_flip_in_v2_garbage", "bit_flip_in_v2_garbage_terminator", "bit_flip_in_v2_packets",
                         "faulted_run_ended_disconnected", "faulted_run_ended_stalled_or_intact"};
    return e;
}
Engine g_engine = MakeEngine();
SIM_REGISTER_ENGINE(g_engine);

} // namespace
