// C22 — the mempool stays consistent and every entry is valid for the next block.
// nodesim mempool module: real node (in-memory DBs, CTxMemPool::check on every step), seeded histories of submissions,
// replacements, packages, prioritisation, blocks confirming/conflicting with mempool entries, reorgs, clock jumps past
// expiry and small size limits; after every operation the public mempool contents are re-derived naively and checked
// against the reference chain model.
#include "../core/sim.h"
#include "../nodesim/mempoolsim.h"

using namespace sim;
using namespace nodesim;

namespace {

Plan Gen(uint64_t seed, Tier tier) { return GenMempoolPlan(seed, tier, "c22"); }

void Run(Ctx& ctx)
{
    MempoolSimConfig cfg;
    cfg.check_consistency = true;
    cfg.bias = "c22";
    MempoolSim ms(ctx, cfg);
    ms.Run();
}

Engine MakeEngine()
{
    Engine e;
    e.prop = "C22";
    e.name = "nodesim/mempool-consistency";
    e.level = "exploration";
    e.gen = Gen;
    e.run = Run;
    e.describe = DescribeMempoolOp;
    e.chunk = 1;
    e.quick_runs = 700;
    e.thorough_runs = 12000;
    e.quick_budget_s = 75;
    e.thorough_budget_s = 1200;
    e.rule = "seeded mempool histories on a real regtest node (base chain 105-125 blocks, then 40-220 operations: single transactions of 11 shapes incl. chains, fan-in/out, "
             "replacements aimed at the fee threshold -1/0/+1 sat, TRUC and dust topologies, below-min-fee, non-standard and invalid ones (bad signature, premature coinbase spend, "
             "non-final, BIP68 one short, missing input, value-creating), witness-stripped twins; packages of 11 shapes; prioritisation of present/absent txids; blocks confirming a random "
             "ancestor-closed subset of the mempool plus a conflicting transaction; reorgs of depth 1-3 returning transactions to the mempool; clock jumps past expiry; per-run knobs: mempool size "
             "40 kB..300 MB, expiry 1..336 h, cluster count/size limits). After every operation: inputs in model UTXO(tip) or created by another entry, no double spend, parent/child links, "
             "ancestor/descendant/cluster counts and ancestor size/fee totals against naive closures, totals, per-entry fee, finality/maturity/BIP68 for tip+1 by the model, script label, and "
             "TestBlockValidity of a block made of all entries in topological order. non-trivial = at least one transaction was accepted; distinct = distinct (mempool txid set, tip) fingerprints.";
    e.real_components = {"CTxMemPool + TxGraph (check_ratio=1)", "MemPoolAccept (single, package, RBF, TRUC, ephemeral dust policy)", "MaybeUpdateMempoolForReorg/removeForBlock/Expire/TrimToSize", "ChainstateManager, script interpreter and caches", "TestBlockValidity"};
    e.stub_components = {"peers (transactions handed to ProcessTransaction / ProcessNewPackage)", "wall clock (SetMockTime)", "ValidationSignals task runner (immediate)"};
    e.assumptions = {"RefChain model (UTXO, BIP68/113, maturity) is correct (see C08)", "script validity of generator-made transactions comes from the generator's label"};
    e.expected_probes = {"tx_accepted", "tx_rejected", "replacement_accepted", "package_tx_accepted", "mined_from_mempool", "block_conflicts_with_mempool", "mempool_reorg", "chained_tx_built", "mempool_block_validated", "prioritised_in_mempool"};
    return e;
}
Engine g_engine = MakeEngine();
SIM_REGISTER_ENGINE(g_engine);

} // namespace
