#include "simfs.h"

#include <atomic>
#include <cerrno>
#include <cstdarg>
#include <cstdio>
#include <algorithm>
#include <cstring>
#include <dirent.h>
#include <dlfcn.h>
#include <execinfo.h>
#include <fcntl.h>
#include <map>
#include <set>
#include <sys/stat.h>
#include <sys/types.h>
#include <unistd.h>

// ---------------------------------------------------------------------------------------------
// state

namespace simfs {

static std::atomic<bool> g_armed{false};
static std::string g_root; // with trailing '/'
static std::vector<LogOp> g_log;
static std::map<std::string, uint32_t> g_names; // relative path -> ino
static uint32_t g_next_ino = 1;
static uint64_t g_other_thread_ops = 0;
static pid_t g_main_tid = 0;
static thread_local int t_bypass = 0;

struct FdInfo {
    bool tracked{false};
    bool is_dir{false};
    bool append{false};
    uint32_t ino{0};
    std::string rel;
};
static constexpr int MAX_FD = 8192;
static FdInfo g_fds[MAX_FD];
static std::map<FILE*, int> g_files;

static FaultKind g_fault = FaultKind::NONE;
static int64_t g_fault_countdown = -1;
static bool g_fault_fired = false;
static pid_t g_fault_tid = 0; //!< faults only hit operations of the thread that armed them (a library's background thread, e.g.
                              //!< LevelDB's compaction thread, runs on real time: letting it consume the countdown made outcomes
                              //!< depend on timing)

struct Spin {
    std::atomic_flag f = ATOMIC_FLAG_INIT;
    void lock() { while (f.test_and_set(std::memory_order_acquire)) {} }
    void unlock() { f.clear(std::memory_order_release); }
};
static Spin g_lock;
struct Guard {
    Guard() { g_lock.lock(); }
    ~Guard() { g_lock.unlock(); }
};

template <class F>
static F Real(const char* name)
{
    return (F)dlsym(RTLD_NEXT, name);
}

const char* KindName(OpKind k)
{
    static const char* n[] = {"create", "write", "trunc", "falloc", "sync", "syncdir", "rename", "unlink", "mkdir", "rmdir"};
    return n[(int)k];
}

static bool Under(const char* path, std::string& rel)
{
    if (!path || t_bypass || !g_armed.load(std::memory_order_relaxed)) return false;
    size_t n = g_root.size();
    if (strncmp(path, g_root.c_str(), n) != 0) {
        // the root itself (without trailing slash)
        if (strlen(path) == n - 1 && strncmp(path, g_root.c_str(), n - 1) == 0) { rel = ""; return true; }
        return false;
    }
    rel.assign(path + n);
    while (!rel.empty() && rel.back() == '/') rel.pop_back();
    // collapse duplicate slashes
    std::string out;
    for (char c : rel)
        if (!(c == '/' && !out.empty() && out.back() == '/')) out.push_back(c);
    rel.swap(out);
    return true;
}

static std::string Parent(const std::string& rel)
{
    auto p = rel.rfind('/');
    return p == std::string::npos ? std::string() : rel.substr(0, p);
}

static void Push(LogOp&& op)
{
    pid_t tid = gettid();
    op.main_thread = (tid == g_main_tid);
    if (!op.main_thread) ++g_other_thread_ops;
    g_log.push_back(std::move(op));
}

/** returns true if the current op must fail with errno set; kinds: 'w' write, 's' sync, 'f' fallocate */
static std::string g_exempt_substr;       //!< write faults pass over write()s issued from inside fwrite() to paths containing this
static thread_local int t_in_fwrite = 0;
static bool FaultNow(char cls, int& err, size_t* short_len = nullptr, const std::string* rel = nullptr, size_t n = 0)
{
    if (g_fault == FaultKind::NONE || g_fault_fired) return false;
    if (gettid() != g_fault_tid) return false;
    if (cls == 'w' && rel && t_in_fwrite && !g_exempt_substr.empty() && rel->find(g_exempt_substr) != std::string::npos) return false;
    bool match = (cls == 'w' && (g_fault == FaultKind::ENOSPC_WRITE || g_fault == FaultKind::EIO_WRITE || g_fault == FaultKind::SHORT_WRITE)) ||
                 (cls == 's' && g_fault == FaultKind::EIO_SYNC) || (cls == 'f' && g_fault == FaultKind::ENOSPC_FALLOC);
    if (!match) return false;
    if (g_fault_countdown-- > 0) return false;
    g_fault_fired = true;
    if (getenv("VERIF_SIMFS_FAULT_DEBUG")) {
        fprintf(stderr, "simfs: fault fires cls=%c path=%s len=%zu\n", cls, rel ? rel->c_str() : "-", n);
        void* bt[40];
        int nb = backtrace(bt, 40);
        backtrace_symbols_fd(bt, nb, 2);
    }
    if (g_fault == FaultKind::SHORT_WRITE) {
        if (short_len) *short_len = 1;
        return false;
    }
    err = (g_fault == FaultKind::ENOSPC_WRITE || g_fault == FaultKind::ENOSPC_FALLOC) ? ENOSPC : EIO;
    return true;
}

void Arm(const std::string& root)
{
    Guard g;
    g_root = root;
    while (!g_root.empty() && g_root.back() == '/') g_root.pop_back();
    g_root += '/';
    g_log.clear();
    g_names.clear();
    g_next_ino = 1;
    g_other_thread_ops = 0;
    g_main_tid = gettid();
    for (auto& f : g_fds) f = FdInfo{};
    g_fault = FaultKind::NONE;
    g_fault_fired = false;
    g_exempt_substr.clear();
    g_armed = true;
}
SavedLog TakeLog()
{
    Guard g;
    SavedLog s;
    s.root = g_root;
    s.log.swap(g_log);
    s.names.assign(g_names.begin(), g_names.end());
    s.next_ino = g_next_ino;
    s.other_thread_ops = g_other_thread_ops;
    g_names.clear();
    return s;
}
void RestoreLog(SavedLog&& s)
{
    Guard g;
    g_root = s.root;
    g_log.swap(s.log);
    g_names.clear();
    g_names.insert(s.names.begin(), s.names.end());
    g_next_ino = s.next_ino;
    g_other_thread_ops = s.other_thread_ops;
    for (auto& f : g_fds) f = FdInfo{};
}

static void AdoptDir(const std::string& abs, const std::string& rel)
{
    std::vector<std::string> entries;
    if (DIR* d = opendir(abs.c_str())) {
        while (struct dirent* e = readdir(d)) {
            std::string n = e->d_name;
            if (n != "." && n != "..") entries.push_back(n);
        }
        closedir(d);
    }
    std::sort(entries.begin(), entries.end());
    for (const std::string& n : entries) {
        const std::string a = abs + "/" + n, r = rel.empty() ? n : rel + "/" + n;
        struct stat st;
        if (lstat(a.c_str(), &st) != 0) continue;
        if (S_ISDIR(st.st_mode)) {
            LogOp op;
            op.kind = OpKind::MKDIR;
            op.path = r;
            g_log.push_back(std::move(op));
            AdoptDir(a, r);
        } else if (S_ISREG(st.st_mode)) {
            uint32_t ino = g_next_ino++;
            g_names[r] = ino;
            LogOp c;
            c.kind = OpKind::CREATE;
            c.ino = ino;
            c.path = r;
            g_log.push_back(std::move(c));
            LogOp w;
            w.kind = OpKind::WRITE;
            w.ino = ino;
            w.off = 0;
            w.data.resize((size_t)st.st_size);
            int fd = ::open(a.c_str(), O_RDONLY);
            size_t got = 0;
            while (fd >= 0 && got < w.data.size()) {
                ssize_t n2 = ::read(fd, w.data.data() + got, w.data.size() - got);
                if (n2 <= 0) break;
                got += (size_t)n2;
            }
            if (fd >= 0) ::close(fd);
            w.len = w.data.size();
            if (w.len) g_log.push_back(std::move(w));
            LogOp sy;
            sy.kind = OpKind::SYNC;
            sy.ino = ino;
            g_log.push_back(std::move(sy));
        }
    }
}

size_t ArmAdopt(const std::string& root)
{
    Arm(root);
    g_armed = false;
    ++t_bypass;
    {
        Guard g;
        std::string abs = g_root;
        abs.pop_back();
        AdoptDir(abs, "");
    }
    --t_bypass;
    g_armed = true;
    return g_log.size();
}

void Disarm() { g_armed = false; }
bool Armed() { return g_armed; }
size_t LogSize() { Guard g; return g_log.size(); }
const std::vector<LogOp>& Log() { return g_log; }
uint64_t OpsFromOtherThreads() { return g_other_thread_ops; }
void SetFault(FaultKind kind, uint64_t after_ops) { Guard g; g_fault_tid = gettid(); g_fault = kind; g_fault_countdown = (int64_t)after_ops; g_fault_fired = false; }
bool FaultFired() { return g_fault_fired; }
void SetFwriteFaultExempt(const std::string& path_substr) { Guard g; g_exempt_substr = path_substr; }
void ClearFault() { Guard g; g_fault = FaultKind::NONE; g_fault_fired = false; }

std::vector<size_t> BoundaryPoints()
{
    std::vector<size_t> out;
    for (size_t i = 0; i < g_log.size(); ++i) {
        auto k = g_log[i].kind;
        if (k == OpKind::SYNC || k == OpKind::SYNCDIR || k == OpKind::RENAME || k == OpKind::UNLINK || k == OpKind::TRUNC) {
            out.push_back(i);
            out.push_back(i + 1);
        }
    }
    return out;
}

// ---------------------------------------------------------------------------------------------
// crash image

bool Materialize(const CrashSpec& spec, const std::string& dest_root, ImageInfo* info)
{
    const size_t k = std::min(spec.k, g_log.size());
    const size_t j = spec.powerloss ? std::min(spec.j, k) : k;
    // which ops in [j,k) survive
    std::vector<char> survive(k, 1);
    if (spec.powerloss) {
        // last sync index (< k) per inode and per directory
        std::map<uint32_t, size_t> last_sync;
        std::map<std::string, size_t> last_dirsync;
        for (size_t i = 0; i < k; ++i) {
            if (g_log[i].kind == OpKind::SYNC) last_sync[g_log[i].ino] = i;
            if (g_log[i].kind == OpKind::SYNCDIR) last_dirsync[g_log[i].path] = i;
        }
        auto synced_after = [&](uint32_t ino, size_t i) { auto it = last_sync.find(ino); return it != last_sync.end() && it->second > i; };
        auto dirsynced_after = [&](const std::string& dir, size_t i) { auto it = last_dirsync.find(dir); return it != last_dirsync.end() && it->second > i; };
        for (size_t i = j; i < k; ++i) {
            const LogOp& op = g_log[i];
            switch (op.kind) {
            case OpKind::WRITE: case OpKind::TRUNC: case OpKind::FALLOC: survive[i] = synced_after(op.ino, i); break;
            case OpKind::CREATE: survive[i] = synced_after(op.ino, i) || dirsynced_after(Parent(op.path), i); break;
            case OpKind::RENAME: survive[i] = dirsynced_after(Parent(op.path2), i); break;
            case OpKind::UNLINK: case OpKind::MKDIR: case OpKind::RMDIR: survive[i] = dirsynced_after(Parent(op.path), i); break;
            default: break;
            }
        }
    }
    // torn tail: op j-1 is an unsynced appending write
    size_t torn_idx = (size_t)-1;
    size_t torn_keep = 0;
    std::map<uint32_t, std::vector<unsigned char>> inodes;
    std::map<std::string, uint32_t> names;
    std::set<std::string> dirs;
    ImageInfo ii;
    if (spec.powerloss && spec.torn && j > 0 && g_log[j - 1].kind == OpKind::WRITE && g_log[j - 1].len > 512) {
        bool synced = false;
        for (size_t i = j; i < k; ++i)
            if (g_log[i].kind == OpKind::SYNC && g_log[i].ino == g_log[j - 1].ino) synced = true;
        if (!synced) {
            torn_idx = j - 1;
            size_t sectors = g_log[j - 1].len / 512;
            torn_keep = (size_t)(spec.torn_sel % sectors) * 512; // 0 .. len-512 rounded
        }
    }
    for (size_t i = 0; i < k; ++i) {
        const LogOp& op = g_log[i];
        if (!survive[i]) { ++ii.dropped; continue; }
        ++ii.applied;
        switch (op.kind) {
        case OpKind::CREATE:
            names[op.path] = op.ino;
            inodes[op.ino];
            break;
        case OpKind::WRITE: {
            auto& d = inodes[op.ino];
            size_t len = op.len;
            if (i == torn_idx) {
                if (op.off + op.len > d.size() && op.off <= d.size()) { len = torn_keep; ii.tore = true; }
            }
            if (d.size() < op.off + len) d.resize(op.off + len, 0);
            memcpy(d.data() + op.off, op.data.data(), len);
            break;
        }
        case OpKind::TRUNC: inodes[op.ino].resize(op.off, 0); break;
        case OpKind::FALLOC: {
            auto& d = inodes[op.ino];
            if (d.size() < op.off + op.len) d.resize(op.off + op.len, 0);
            break;
        }
        case OpKind::RENAME: {
            auto it = names.find(op.path);
            if (it != names.end() && op.path != op.path2) { names[op.path2] = it->second; names.erase(op.path); }
            break;
        }
        case OpKind::UNLINK: names.erase(op.path); break;
        case OpKind::MKDIR: dirs.insert(op.path); break;
        case OpKind::RMDIR: dirs.erase(op.path); break;
        default: break;
        }
    }
    // write out (bypassing the recorder)
    ++t_bypass;
    bool ok = true;
    auto mkdirs = [&](const std::string& full) {
        for (size_t p = 1; p <= full.size(); ++p)
            if (p == full.size() || full[p] == '/') ::mkdir(full.substr(0, p).c_str(), 0700);
    };
    mkdirs(dest_root);
    for (auto& d : dirs) mkdirs(dest_root + "/" + d);
    for (auto& [name, ino] : names) {
        std::string full = dest_root + "/" + name;
        mkdirs(Parent(full));
        int fd = ::open(full.c_str(), O_WRONLY | O_CREAT | O_TRUNC, 0600);
        if (fd < 0) { ok = false; continue; }
        const auto& d = inodes[ino];
        size_t eff = d.size();
        while (eff > 0 && d[eff - 1] == 0) --eff;
        size_t off = 0;
        while (off < eff) {
            ssize_t w = ::write(fd, d.data() + off, eff - off);
            if (w <= 0) { ok = false; break; }
            off += w;
        }
        if (d.size() > eff && ::ftruncate(fd, d.size()) != 0) ok = false;
        ::close(fd);
        ++ii.files;
    }
    --t_bypass;
    if (info) *info = ii;
    return ok;
}

// ---------------------------------------------------------------------------------------------
// recording helpers used by the interposers

static void TrackOpen(int fd, const std::string& rel, int flags)
{
    if (fd < 0 || fd >= MAX_FD) return;
    struct stat st;
    if (fstat(fd, &st) != 0) return;
    Guard g;
    FdInfo& fi = g_fds[fd];
    fi = FdInfo{};
    fi.tracked = true;
    fi.rel = rel;
    if (S_ISDIR(st.st_mode)) { fi.is_dir = true; return; }
    if (!S_ISREG(st.st_mode)) { fi.tracked = false; return; }
    auto it = g_names.find(rel);
    if (it == g_names.end()) {
        fi.ino = g_next_ino++;
        g_names[rel] = fi.ino;
        LogOp op;
        op.kind = OpKind::CREATE;
        op.ino = fi.ino;
        op.path = rel;
        Push(std::move(op));
    } else {
        fi.ino = it->second;
        if ((flags & O_TRUNC) && (flags & (O_WRONLY | O_RDWR))) {
            LogOp op;
            op.kind = OpKind::TRUNC;
            op.ino = fi.ino;
            op.off = 0;
            Push(std::move(op));
        }
    }
    fi.append = flags & O_APPEND;
}

static bool Tracked(int fd, FdInfo& out)
{
    if (fd < 0 || fd >= MAX_FD || t_bypass) return false;
    if (!g_armed.load(std::memory_order_relaxed)) return false;
    Guard g;
    if (!g_fds[fd].tracked) return false;
    out = g_fds[fd];
    return true;
}

static void LogWrite(const FdInfo& fi, uint64_t off, const void* buf, size_t n)
{
    LogOp op;
    op.kind = OpKind::WRITE;
    op.ino = fi.ino;
    op.off = off;
    op.len = n;
    op.data.assign((const unsigned char*)buf, (const unsigned char*)buf + n);
    Guard g;
    Push(std::move(op));
}

} // namespace simfs

using namespace simfs;

// ---------------------------------------------------------------------------------------------
// interposers (strong definitions in the executable)

extern "C" {

static int OpenCommon(const char* path, int flags, mode_t mode, const char* sym)
{
    static auto r_open = Real<int (*)(const char*, int, ...)>("open");
    (void)sym;
    int fd = r_open(path, flags, mode);
    std::string rel;
    if (fd >= 0 && Under(path, rel)) TrackOpen(fd, rel, flags);
    return fd;
}

int open(const char* path, int flags, ...)
{
    mode_t mode = 0;
    if (flags & (O_CREAT | O_TMPFILE)) {
        va_list ap;
        va_start(ap, flags);
        mode = va_arg(ap, mode_t);
        va_end(ap);
    }
    return OpenCommon(path, flags, mode, "open");
}
int open64(const char* path, int flags, ...)
{
    mode_t mode = 0;
    if (flags & (O_CREAT | O_TMPFILE)) {
        va_list ap;
        va_start(ap, flags);
        mode = va_arg(ap, mode_t);
        va_end(ap);
    }
    return OpenCommon(path, flags | O_LARGEFILE, mode, "open64");
}
int __open_2(const char* path, int flags) { return OpenCommon(path, flags, 0, "__open_2"); }
int __open64_2(const char* path, int flags) { return OpenCommon(path, flags | O_LARGEFILE, 0, "__open64_2"); }
int creat(const char* path, mode_t mode) { return OpenCommon(path, O_CREAT | O_WRONLY | O_TRUNC, mode, "creat"); }

int openat(int dirfd, const char* path, int flags, ...)
{
    static auto r = Real<int (*)(int, const char*, int, ...)>("openat");
    mode_t mode = 0;
    if (flags & (O_CREAT | O_TMPFILE)) {
        va_list ap;
        va_start(ap, flags);
        mode = va_arg(ap, mode_t);
        va_end(ap);
    }
    int fd = r(dirfd, path, flags, mode);
    std::string rel;
    if (fd >= 0 && path && path[0] == '/' && Under(path, rel)) TrackOpen(fd, rel, flags);
    return fd;
}

int close(int fd)
{
    static auto r = Real<int (*)(int)>("close");
    if (fd >= 0 && fd < MAX_FD && g_armed.load(std::memory_order_relaxed)) {
        Guard g;
        g_fds[fd].tracked = false;
    }
    return r(fd);
}

ssize_t write(int fd, const void* buf, size_t n)
{
    static auto r = Real<ssize_t (*)(int, const void*, size_t)>("write");
    FdInfo fi;
    if (!Tracked(fd, fi) || fi.is_dir) return r(fd, buf, n);
    int err = 0;
    size_t short_len = 0;
    {
        Guard g;
        if (FaultNow('w', err, &short_len, &fi.rel, n)) { errno = err; return -1; }
    }
    if (short_len && n > 1) n = std::max<size_t>(1, n / 2);
    uint64_t off;
    if (fi.append) {
        struct stat st;
        fstat(fd, &st);
        off = st.st_size;
    } else {
        off = (uint64_t)lseek(fd, 0, SEEK_CUR);
    }
    ssize_t w = r(fd, buf, n);
    if (w > 0) LogWrite(fi, off, buf, (size_t)w);
    return w;
}

static ssize_t PwriteCommon(int fd, const void* buf, size_t n, off64_t off)
{
    static auto r = Real<ssize_t (*)(int, const void*, size_t, off64_t)>("pwrite64");
    FdInfo fi;
    if (!Tracked(fd, fi) || fi.is_dir) return r(fd, buf, n, off);
    int err = 0;
    size_t short_len = 0;
    {
        Guard g;
        if (FaultNow('w', err, &short_len, &fi.rel, n)) { errno = err; return -1; }
    }
    if (short_len && n > 1) n = std::max<size_t>(1, n / 2);
    ssize_t w = r(fd, buf, n, off);
    if (w > 0) LogWrite(fi, (uint64_t)off, buf, (size_t)w);
    return w;
}
ssize_t pwrite64(int fd, const void* buf, size_t n, off64_t off) { return PwriteCommon(fd, buf, n, off); }
ssize_t pwrite(int fd, const void* buf, size_t n, off_t off) { return PwriteCommon(fd, buf, n, off); }

static int SyncCommon(int fd, bool data_only)
{
    static auto r_fsync = Real<int (*)(int)>("fsync");
    static auto r_fdatasync = Real<int (*)(int)>("fdatasync");
    FdInfo fi;
    if (!Tracked(fd, fi)) return data_only ? r_fdatasync(fd) : r_fsync(fd);
    int err = 0;
    {
        Guard g;
        if (FaultNow('s', err)) { errno = err; return -1; }
        LogOp op;
        if (fi.is_dir) { op.kind = OpKind::SYNCDIR; op.path = fi.rel; }
        else { op.kind = OpKind::SYNC; op.ino = fi.ino; }
        Push(std::move(op));
    }
    return 0; // tmpfs: nothing to do for real
}
int fsync(int fd) { return SyncCommon(fd, false); }
int fdatasync(int fd) { return SyncCommon(fd, true); }

static int TruncCommon(int fd, off64_t len)
{
    static auto r = Real<int (*)(int, off64_t)>("ftruncate64");
    int rc = r(fd, len);
    FdInfo fi;
    if (rc == 0 && Tracked(fd, fi) && !fi.is_dir) {
        LogOp op;
        op.kind = OpKind::TRUNC;
        op.ino = fi.ino;
        op.off = (uint64_t)len;
        Guard g;
        Push(std::move(op));
    }
    return rc;
}
int ftruncate(int fd, off_t len) { return TruncCommon(fd, len); }
int ftruncate64(int fd, off64_t len) { return TruncCommon(fd, len); }

static int FallocCommon(int fd, off64_t off, off64_t len)
{
    static auto r = Real<int (*)(int, off64_t, off64_t)>("posix_fallocate64");
    FdInfo fi;
    bool tr = Tracked(fd, fi) && !fi.is_dir;
    if (tr) {
        int err = 0;
        Guard g;
        if (FaultNow('f', err)) return err; // posix_fallocate returns the error number
    }
    int rc = r(fd, off, len);
    if (rc == 0 && tr) {
        LogOp op;
        op.kind = OpKind::FALLOC;
        op.ino = fi.ino;
        op.off = (uint64_t)off;
        op.len = (uint64_t)len;
        Guard g;
        Push(std::move(op));
    }
    return rc;
}
int posix_fallocate(int fd, off_t off, off_t len) { return FallocCommon(fd, off, len); }
int posix_fallocate64(int fd, off64_t off, off64_t len) { return FallocCommon(fd, off, len); }

int rename(const char* a, const char* b)
{
    static auto r = Real<int (*)(const char*, const char*)>("rename");
    int rc = r(a, b);
    std::string ra, rb;
    if (rc == 0 && Under(a, ra) && Under(b, rb)) {
        Guard g;
        auto it = g_names.find(ra);
        if (it != g_names.end()) {
            uint32_t ino = it->second;
            g_names.erase(it);
            g_names[rb] = ino;
        }
        LogOp op;
        op.kind = OpKind::RENAME;
        op.path = ra;
        op.path2 = rb;
        Push(std::move(op));
    }
    return rc;
}

int unlink(const char* p)
{
    static auto r = Real<int (*)(const char*)>("unlink");
    int rc = r(p);
    std::string rel;
    if (rc == 0 && Under(p, rel)) {
        Guard g;
        g_names.erase(rel);
        LogOp op;
        op.kind = OpKind::UNLINK;
        op.path = rel;
        Push(std::move(op));
    }
    return rc;
}

int mkdir(const char* p, mode_t m)
{
    static auto r = Real<int (*)(const char*, mode_t)>("mkdir");
    int rc = r(p, m);
    std::string rel;
    if (rc == 0 && Under(p, rel)) {
        Guard g;
        LogOp op;
        op.kind = OpKind::MKDIR;
        op.path = rel;
        Push(std::move(op));
    }
    return rc;
}

int rmdir(const char* p)
{
    static auto r = Real<int (*)(const char*)>("rmdir");
    int rc = r(p);
    std::string rel;
    if (rc == 0 && Under(p, rel)) {
        Guard g;
        LogOp op;
        op.kind = OpKind::RMDIR;
        op.path = rel;
        Push(std::move(op));
    }
    return rc;
}

int remove(const char* p)
{
    struct stat st;
    if (lstat(p, &st) == 0 && S_ISDIR(st.st_mode)) return rmdir(p);
    return unlink(p);
}

// stdio: FILE* over a recorded fd, so that glibc's buffering sits above the log as it sits above the kernel
struct Cookie { int fd; };
static ssize_t c_read(void* c, char* b, size_t n) { return read(((Cookie*)c)->fd, b, n); }
static ssize_t c_write(void* c, const char* b, size_t n)
{
    ssize_t r = write(((Cookie*)c)->fd, b, n);
    return r < 0 ? 0 : r;
}
static int c_seek(void* c, off64_t* o, int w)
{
    off64_t r = lseek64(((Cookie*)c)->fd, *o, w);
    if (r < 0) return -1;
    *o = r;
    return 0;
}
static int c_close(void* c)
{
    int fd = ((Cookie*)c)->fd;
    delete (Cookie*)c;
    return close(fd);
}

static FILE* FopenCommon(const char* p, const char* m)
{
    static auto r = Real<FILE* (*)(const char*, const char*)>("fopen64");
    std::string rel;
    if (!Under(p, rel)) return r(p, m);
    int fl = 0;
    bool plus = strchr(m, '+') != nullptr;
    if (m[0] == 'r') fl = plus ? O_RDWR : O_RDONLY;
    else if (m[0] == 'w') fl = (plus ? O_RDWR : O_WRONLY) | O_CREAT | O_TRUNC;
    else fl = (plus ? O_RDWR : O_WRONLY) | O_CREAT | O_APPEND;
    if (strchr(m, 'x')) fl |= O_EXCL;
    if (strchr(m, 'e')) fl |= O_CLOEXEC;
    int fd = open(p, fl, 0666);
    if (fd < 0) return nullptr;
    auto* c = new Cookie{fd};
    cookie_io_functions_t io{c_read, c_write, c_seek, c_close};
    FILE* f = fopencookie(c, m, io);
    if (!f) { close(fd); delete c; return nullptr; }
    Guard g;
    g_files[f] = fd;
    return f;
}
size_t fwrite(const void* b, size_t sz, size_t n, FILE* f)
{
    static auto r = Real<size_t (*)(const void*, size_t, size_t, FILE*)>("fwrite");
    ++t_in_fwrite;
    size_t rc = r(b, sz, n, f);
    --t_in_fwrite;
    return rc;
}
FILE* fopen(const char* p, const char* m) { return FopenCommon(p, m); }
FILE* fopen64(const char* p, const char* m) { return FopenCommon(p, m); }

int fileno(FILE* f)
{
    static auto r = Real<int (*)(FILE*)>("fileno");
    {
        Guard g;
        auto it = g_files.find(f);
        if (it != g_files.end()) return it->second;
    }
    return r(f);
}

int fclose(FILE* f)
{
    static auto r = Real<int (*)(FILE*)>("fclose");
    {
        Guard g;
        g_files.erase(f);
    }
    return r(f);
}

} // extern "C"
