// simfs — simulated file layer. Strong definitions of the libc file calls in the harness executable
// pass every call for a path under the armed root through to the real (tmpfs) file AND append it to an
// in-memory operation log (inode based). A crash at I/O operation k is then "cut the log at k, rebuild a
// directory from the prefix" — process-kill semantics (everything before k) or power-loss semantics
// (a suffix of not-yet-synced operations discarded, optional torn last append). Other storage faults:
// ENOSPC/EIO at operation k, short writes.
#pragma once

#include <cstddef>
#include <cstdint>
#include <string>
#include <vector>

namespace simfs {

enum class OpKind : uint8_t { CREATE, WRITE, TRUNC, FALLOC, SYNC, SYNCDIR, RENAME, UNLINK, MKDIR, RMDIR };
const char* KindName(OpKind k);

struct LogOp {
    OpKind kind;
    uint32_t ino{0};        //!< CREATE/WRITE/TRUNC/FALLOC/SYNC
    uint64_t off{0};        //!< WRITE/FALLOC offset, TRUNC length
    uint64_t len{0};
    std::string path;       //!< CREATE/UNLINK/MKDIR/RMDIR/SYNCDIR/RENAME(from), relative to the root
    std::string path2;      //!< RENAME(to)
    std::vector<unsigned char> data; //!< WRITE
    bool main_thread{true};
};

/** Start recording for paths under `root` (absolute, no trailing slash). Clears the log. */
void Arm(const std::string& root);
void Disarm();
bool Armed();
size_t LogSize();
const std::vector<LogOp>& Log();
uint64_t OpsFromOtherThreads();

/** Arm on a directory tree that already exists (e.g. a crash image): the tree is imported as a synthetic, fully durable log
 *  prefix (MKDIR / CREATE / WRITE / SYNC per entry, in sorted path order), so that Materialize() of a later cut reproduces the files
 *  that were there before. Returns the log size after the import: crash windows must start at or after it. */
size_t ArmAdopt(const std::string& root);

/** The recorder keeps one log. To record a nested scenario (the restart on a crash image) while the outer log is still needed,
 *  move the outer log out and back in. Only while disarmed. */
struct SavedLog {
    std::string root;
    std::vector<LogOp> log;
    std::vector<std::pair<std::string, uint32_t>> names;
    uint32_t next_ino{1};
    uint64_t other_thread_ops{0};
};
SavedLog TakeLog();
void RestoreLog(SavedLog&& s);

/** Inject an error: the n-th (0-based, counted from now) recorded operation of the given class fails. */
enum class FaultKind { NONE, ENOSPC_WRITE, EIO_WRITE, EIO_SYNC, SHORT_WRITE, ENOSPC_FALLOC };
void SetFault(FaultKind kind, uint64_t after_ops);
bool FaultFired();
/** write faults pass over write()s that stdio issues from inside fwrite() (not fflush/fclose) to paths containing path_substr
 *  (cleared by Arm()) */
void SetFwriteFaultExempt(const std::string& path_substr);
void ClearFault();

struct CrashSpec {
    size_t k{0};             //!< crash before executing log op k (ops [0,k) happened)
    bool powerloss{false};
    size_t j{0};             //!< power loss: ops [0,j) fully durable; ops in [j,k) survive only if synced before k
    bool torn{false};        //!< power loss: tear the last surviving append at a 512-byte boundary
    uint32_t torn_sel{0};
};
struct ImageInfo {
    size_t applied{0}, dropped{0};
    bool tore{false};
    size_t files{0};
};
/** Build the directory tree a crash described by `spec` would leave, under dest_root. */
bool Materialize(const CrashSpec& spec, const std::string& dest_root, ImageInfo* info = nullptr);

/** Indices k that sit right before/after sync, rename, unlink, truncate operations ("interesting" crash points). */
std::vector<size_t> BoundaryPoints();

} // namespace simfs
