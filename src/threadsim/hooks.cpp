// Strong definitions of the weak instrumentation hooks compiled into /repo under BITCOIN_VERIF (src/util/verif_hooks.h).
#include "threadsim.h"

extern "C" {
void verif_yield(const char* site) { threadsim::YieldPoint(site); }
void verif_access(const void* addr, int is_write, const char* site) { threadsim::Access(addr, is_write != 0, site); }
void verif_sync_release(const void* addr) { threadsim::SyncRelease(addr); }
void verif_sync_acquire(const void* addr) { threadsim::SyncAcquire(addr); }
}
