// threadsim — real threads, one running at a time, scheduled by the simulator.
// Strong definitions (in the harness executable) of pthread_create/join, pthread_mutex_*, pthread_cond_*, pthread_rwlock_*,
// sem_*, syscall(SYS_futex), nanosleep/clock_nanosleep/usleep, sched_yield and clock_gettime hand control to a token-passing
// scheduler while it is armed: exactly one registered thread holds the run token; a thread that would block is parked with its
// wake condition and an optional SIMULATED deadline; when nothing is runnable the simulated clock jumps to the earliest deadline;
// if there is none, that is a deadlock. Two policies: COOPERATIVE (switch only when the running thread blocks; no seeded choice:
// as reproducible as a single-threaded program) and PREEMPTIVE (the seed decides, at every intercepted call and every guarded
// VERIF_YIELD point inside /repo, whether to switch and to whom; PCT-style priorities optional).
#pragma once

#include <cstdint>
#include <string>
#include <vector>

namespace threadsim {

enum class Policy { COOPERATIVE, PREEMPTIVE, PCT };

struct Config {
    Policy policy{Policy::COOPERATIVE};
    uint64_t seed{1};
    uint32_t switch_per_1024{256};   //!< PREEMPTIVE: probability of considering a switch at a scheduling point
    int pct_depth{3};                //!< PCT: number of priority change points
    uint64_t pct_expected_points{2000};
    bool spurious_wakeups{false};    //!< fault: condition-variable waits may return without a signal
    uint64_t max_points{50'000'000}; //!< livelock guard: abort the run beyond this many scheduling points
};

/** Arm the scheduler; the calling thread becomes simulated thread 0. Only call with no other live threads. */
void Arm(const Config& cfg);
/** PCT only: draw the priority change points afresh over the next `expected_points_from_now` scheduling points and give every
 *  live thread a fresh random priority. Call right before the concurrent phase of a run whose setup is single-threaded. */
void RedrawPct(uint64_t expected_points_from_now);
/** All simulated threads other than the caller must have finished (or be parked forever: they are leaked). */
void Disarm();
bool Armed();

/** Run every other runnable thread until all of them are blocked or finished (cooperative hand-over from the caller). */
void Settle();
/** Explicit scheduling point (used by the VERIF_YIELD hooks compiled into /repo under BITCOIN_VERIF). */
void YieldPoint(const char* site);

uint64_t NowNs();                  //!< simulated monotonic time
void AdvanceNs(uint64_t ns);       //!< harness moves simulated time forward (wakes expired timed waits at the next block)

struct Stats {
    uint64_t points{0};            //!< scheduling points passed
    uint64_t switches{0};
    uint64_t threads_created{0};
    uint64_t timed_out_waits{0};
    uint64_t clock_jumps{0};
    uint64_t spurious{0};
    uint64_t schedule_hash{0};     //!< hash of the sequence of thread choices (distinct-interleaving measure)
};
Stats GetStats();
/** Compact human-readable schedule (thread ids at switches), capped; for replay files / debugging. */
std::string ScheduleString();
int CurrentThreadId();             //!< simulated id of the calling thread, -1 if unknown to the simulator

/** Happens-before race checker for annotated plain accesses (VERIF_ACCESS hooks): vector clocks advanced at unlock->lock,
 *  create/join, cond/futex wake->wakee, and explicit release/acquire annotations. */
void Access(const void* addr, bool is_write, const char* site);
void SyncRelease(const void* addr);
void SyncAcquire(const void* addr);
struct Race { std::string site_a, site_b; };
std::vector<Race> Races();

} // namespace threadsim
