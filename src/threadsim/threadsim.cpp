#include "threadsim.h"

#include <algorithm>
#include <atomic>
#include <cerrno>
#include <climits>
#include <cstdarg>
#include <cstdio>
#include <cstdlib>
#include <cstring>
#include <dlfcn.h>
#include <linux/futex.h>
#include <map>
#include <pthread.h>
#include <semaphore.h>
#include <set>
#include <sys/syscall.h>
#include <time.h>
#include <unistd.h>

// ---------------------------------------------------------------------------------------------
// real functions

namespace {

using create_fn = int (*)(pthread_t*, const pthread_attr_t*, void* (*)(void*), void*);
struct RealFns {
    long (*syscall)(long, ...);
    int (*mutex_lock)(pthread_mutex_t*);
    int (*mutex_trylock)(pthread_mutex_t*);
    int (*mutex_unlock)(pthread_mutex_t*);
    create_fn create;
    int (*join)(pthread_t, void**);
    int (*cond_wait)(pthread_cond_t*, pthread_mutex_t*);
    int (*cond_timedwait)(pthread_cond_t*, pthread_mutex_t*, const struct timespec*);
    int (*cond_clockwait)(pthread_cond_t*, pthread_mutex_t*, clockid_t, const struct timespec*);
    int (*cond_signal)(pthread_cond_t*);
    int (*cond_broadcast)(pthread_cond_t*);
    int (*rw_rdlock)(pthread_rwlock_t*);
    int (*rw_wrlock)(pthread_rwlock_t*);
    int (*rw_tryrdlock)(pthread_rwlock_t*);
    int (*rw_trywrlock)(pthread_rwlock_t*);
    int (*rw_unlock)(pthread_rwlock_t*);
    int (*sem_wait_)(sem_t*);
    int (*sem_trywait_)(sem_t*);
    int (*sem_post_)(sem_t*);
    int (*sem_timedwait_)(sem_t*, const struct timespec*);
    int (*sem_clockwait_)(sem_t*, clockid_t, const struct timespec*);
    int (*nanosleep_)(const struct timespec*, struct timespec*);
    int (*clock_nanosleep_)(clockid_t, int, const struct timespec*, struct timespec*);
    int (*usleep_)(useconds_t);
    int (*sched_yield_)();
    int (*clock_gettime_)(clockid_t, struct timespec*);
    int (*once)(pthread_once_t*, void (*)());
    bool ready{false};
};
RealFns R;
bool g_resolving = false;

template <class F>
void Sym(F& f, const char* name) { f = (F)dlsym(RTLD_NEXT, name); }

void Resolve()
{
    if (R.ready || g_resolving) return;
    g_resolving = true;
    Sym(R.syscall, "syscall");
    Sym(R.mutex_lock, "pthread_mutex_lock");
    Sym(R.mutex_trylock, "pthread_mutex_trylock");
    Sym(R.mutex_unlock, "pthread_mutex_unlock");
    Sym(R.create, "pthread_create");
    Sym(R.join, "pthread_join");
    Sym(R.cond_wait, "pthread_cond_wait");
    Sym(R.cond_timedwait, "pthread_cond_timedwait");
    Sym(R.cond_clockwait, "pthread_cond_clockwait");
    Sym(R.cond_signal, "pthread_cond_signal");
    Sym(R.cond_broadcast, "pthread_cond_broadcast");
    Sym(R.rw_rdlock, "pthread_rwlock_rdlock");
    Sym(R.rw_wrlock, "pthread_rwlock_wrlock");
    Sym(R.rw_tryrdlock, "pthread_rwlock_tryrdlock");
    Sym(R.rw_trywrlock, "pthread_rwlock_trywrlock");
    Sym(R.rw_unlock, "pthread_rwlock_unlock");
    Sym(R.sem_wait_, "sem_wait");
    Sym(R.sem_trywait_, "sem_trywait");
    Sym(R.sem_post_, "sem_post");
    Sym(R.sem_timedwait_, "sem_timedwait");
    Sym(R.sem_clockwait_, "sem_clockwait");
    Sym(R.nanosleep_, "nanosleep");
    Sym(R.clock_nanosleep_, "clock_nanosleep");
    Sym(R.usleep_, "usleep");
    Sym(R.sched_yield_, "sched_yield");
    Sym(R.clock_gettime_, "clock_gettime");
    Sym(R.once, "pthread_once");
    R.ready = true;
    g_resolving = false;
}
__attribute__((constructor(101))) void ResolveEarly() { Resolve(); }

// ---------------------------------------------------------------------------------------------
// scheduler state (touched only by the thread that holds the run token)

enum St { RUNNABLE, B_MUTEX, B_COND, B_FUTEX, B_JOIN, B_SLEEP, B_RWLOCK, B_SEM, B_ONCE, FINISHED };
constexpr uint64_t NO_DEADLINE = UINT64_MAX;
using VC = std::vector<uint32_t>;

struct T {
    int id{0};
    St st{RUNNABLE};
    const void* obj{nullptr};
    uint64_t deadline{NO_DEADLINE};
    bool timed_out{false};
    int go{0};
    void* (*fn)(void*){nullptr};
    void* arg{nullptr};
    pthread_t pt{};
    int64_t prio{0};
    uint64_t runnable_since{0};
    VC vc;
};

std::vector<T*> g_threads;
std::atomic<bool> g_armed{false};
threadsim::Config g_cfg;
thread_local T* t_self = nullptr;
uint64_t g_rng = 1;
uint64_t g_now = 0;
uint64_t g_tick = 0;
threadsim::Stats g_stats;
std::string g_sched;
std::set<uint64_t> g_pct_points;
int64_t g_pct_low = 0;
std::map<const void*, int> g_once_state; // 1 = in progress, 2 = done
constexpr uint64_t REAL_BASE_NS = 1893456000ULL * 1000000000ULL; // 2030-01-01
constexpr uint64_t MONO_BASE_NS = 1000ULL * 1000000000ULL;

// happens-before
std::map<const void*, VC> g_rel;
struct Shadow { int w_tid{-1}; uint32_t w_clk{0}; const char* w_site{nullptr}; std::map<int, std::pair<uint32_t, const char*>> reads; };
std::map<const void*, Shadow> g_shadow;
std::vector<threadsim::Race> g_races;

uint64_t Rnd()
{
    g_rng ^= g_rng << 13;
    g_rng ^= g_rng >> 7;
    g_rng ^= g_rng << 17;
    return g_rng;
}

/** Raw system call (no libc wrapper, so it never re-enters the interposers). */
long Raw6(long nr, long a, long b, long c, long d, long e, long f)
{
    long ret;
    register long r10 __asm__("r10") = d;
    register long r8 __asm__("r8") = e;
    register long r9 __asm__("r9") = f;
    __asm__ volatile("syscall" : "=a"(ret) : "a"(nr), "D"(a), "S"(b), "d"(c), "r"(r10), "r"(r8), "r"(r9) : "rcx", "r11", "memory");
    return ret;
}

void Park(T* t)
{
    while (!__atomic_load_n(&t->go, __ATOMIC_ACQUIRE)) Raw6(SYS_futex, (long)&t->go, FUTEX_WAIT, 0, 0, 0, 0);
    __atomic_store_n(&t->go, 0, __ATOMIC_RELAXED);
}
void Unpark(T* t)
{
    __atomic_store_n(&t->go, 1, __ATOMIC_RELEASE);
    Raw6(SYS_futex, (long)&t->go, FUTEX_WAKE, 1, 0, 0, 0);
}

void Join(VC& a, const VC& b)
{
    if (a.size() < b.size()) a.resize(b.size(), 0);
    for (size_t i = 0; i < b.size(); ++i) a[i] = std::max(a[i], b[i]);
}
void Tick(T* t)
{
    if (t->vc.size() <= (size_t)t->id) t->vc.resize(t->id + 1, 0);
    ++t->vc[t->id];
}
void Release(T* t, const void* obj)
{
    Join(g_rel[obj], t->vc);
    Tick(t);
}
void Acquire(T* t, const void* obj)
{
    auto it = g_rel.find(obj);
    if (it != g_rel.end()) Join(t->vc, it->second);
}

void MakeRunnable(T* t)
{
    t->st = RUNNABLE;
    t->runnable_since = ++g_tick;
}

[[noreturn]] void Die(const char* what)
{
    fprintf(stderr, "threadsim: %s; threads:", what);
    for (T* t : g_threads) fprintf(stderr, " [%d st=%d obj=%p deadline=%lld]", t->id, (int)t->st, t->obj, t->deadline == NO_DEADLINE ? -1LL : (long long)t->deadline);
    fprintf(stderr, " schedule=%s\n", g_sched.c_str());
    fflush(stderr);
    abort();
}

/** Wake timed waiters whose deadline passed; if nothing is runnable jump the clock to the earliest deadline. */
void ExpireDeadlines(bool need_runnable)
{
    for (;;) {
        bool any_runnable = false;
        uint64_t earliest = NO_DEADLINE;
        for (T* t : g_threads) {
            if (t->st == RUNNABLE) any_runnable = true;
            else if (t->st != FINISHED && t->deadline != NO_DEADLINE) {
                if (t->deadline <= g_now) {
                    t->timed_out = true;
                    t->deadline = NO_DEADLINE;
                    MakeRunnable(t);
                    ++g_stats.timed_out_waits;
                    any_runnable = true;
                } else {
                    earliest = std::min(earliest, t->deadline);
                }
            }
        }
        if (any_runnable || !need_runnable) return;
        if (earliest == NO_DEADLINE) Die("DEADLOCK (every thread is blocked and no timed wait is pending)");
        g_now = earliest;
        ++g_stats.clock_jumps;
    }
}

T* PickNext(T* me, bool must_switch)
{
    std::vector<T*> run;
    for (T* t : g_threads)
        if (t->st == RUNNABLE) run.push_back(t);
    if (run.empty()) return nullptr;
    switch (g_cfg.policy) {
    case threadsim::Policy::COOPERATIVE: {
        if (!must_switch && me->st == RUNNABLE) return me;
        T* best = run[0];
        for (T* t : run)
            if (t->runnable_since < best->runnable_since) best = t;
        return best;
    }
    case threadsim::Policy::PREEMPTIVE: {
        if (!must_switch && me->st == RUNNABLE && (Rnd() & 1023) >= g_cfg.switch_per_1024) return me;
        return run[Rnd() % run.size()];
    }
    case threadsim::Policy::PCT: {
        if (g_pct_points.count(g_stats.points) && me->st == RUNNABLE) me->prio = --g_pct_low;
        T* best = run[0];
        for (T* t : run)
            if (t->prio > best->prio) best = t;
        return best;
    }
    }
    return run[0];
}

/** Hand the token on. Returns when the calling thread is scheduled again (immediately if it stays on). */
void Schedule(bool exiting = false)
{
    T* me = t_self;
    ++g_stats.points;
    if (g_stats.points > g_cfg.max_points) Die("LIVELOCK guard: too many scheduling points");
    ExpireDeadlines(/*need_runnable=*/me->st != RUNNABLE || exiting);
    T* n = PickNext(me, exiting || me->st != RUNNABLE);
    if (!n) Die("DEADLOCK (no runnable thread)");
    if (n == me) return;
    ++g_stats.switches;
    g_stats.schedule_hash = (g_stats.schedule_hash ^ (uint64_t)(n->id + 1)) * 1099511628211ULL;
    if (g_sched.size() < 4000) g_sched += (char)(n->id < 26 ? 'A' + n->id : 'a' + (n->id - 26) % 26);
    Unpark(n);
    if (!exiting) Park(me);
}

void Point()
{
    if (g_cfg.policy == threadsim::Policy::COOPERATIVE) { ++g_stats.points; return; }
    Schedule();
}

void BlockOn(St st, const void* obj, uint64_t deadline)
{
    T* me = t_self;
    me->st = st;
    me->obj = obj;
    me->deadline = deadline;
    me->timed_out = false;
    Schedule();
    me->deadline = NO_DEADLINE;
}

void* Tramp(void* p)
{
    T* t = (T*)p;
    t_self = t;
    Park(t);
    void* r = t->fn(t->arg);
    t->st = FINISHED;
    Tick(t);
    for (T* o : g_threads)
        if (o->st == B_JOIN && o->obj == t) MakeRunnable(o);
    Schedule(/*exiting=*/true);
    t_self = nullptr;
    return r;
}

inline bool Sim() { return g_armed.load(std::memory_order_relaxed) && t_self != nullptr; }

uint64_t TsToNs(const struct timespec* ts) { return (uint64_t)ts->tv_sec * 1000000000ULL + (uint64_t)ts->tv_nsec; }
uint64_t AbsDeadline(clockid_t clk, const struct timespec* abs)
{
    uint64_t a = TsToNs(abs);
    uint64_t base = (clk == CLOCK_REALTIME || clk == CLOCK_REALTIME_COARSE) ? REAL_BASE_NS : MONO_BASE_NS;
    return a > base ? a - base : 0;
}

int SimMutexLock(pthread_mutex_t* m)
{
    for (;;) {
        int r = R.mutex_trylock(m);
        if (r != EBUSY) {
            if (r == 0) Acquire(t_self, m);
            return r;
        }
        BlockOn(B_MUTEX, m, NO_DEADLINE);
    }
}

int SimCondWait(pthread_cond_t* c, pthread_mutex_t* m, uint64_t deadline)
{
    T* me = t_self;
    // release the mutex (a scheduling-relevant event: wake its waiters)
    Release(me, m);
    R.mutex_unlock(m);
    for (T* t : g_threads)
        if (t->st == B_MUTEX && t->obj == m) MakeRunnable(t);
    if (g_cfg.spurious_wakeups && (Rnd() & 15) == 0) {
        // fault: the wait returns although nobody signalled (POSIX allows it); still a scheduling point
        ++g_stats.spurious;
        Schedule();
        SimMutexLock(m);
        return 0;
    }
    BlockOn(B_COND, c, deadline);
    bool timed_out = me->timed_out;
    Acquire(me, c);
    SimMutexLock(m);
    return timed_out ? ETIMEDOUT : 0;
}

} // namespace

// ---------------------------------------------------------------------------------------------
// public API

namespace threadsim {

void Arm(const Config& cfg)
{
    Resolve();
    // thread records of an earlier run are leaked on purpose: a detached thread of that run (e.g. LevelDB's background
    // thread) may still be parked on its record
    g_threads.clear();
    g_cfg = cfg;
    g_rng = cfg.seed * 0x9E3779B97F4A7C15ULL + 0x1234567;
    if (g_rng == 0) g_rng = 1;
    g_now = 0;
    g_tick = 0;
    g_stats = Stats{};
    g_sched.clear();
    g_rel.clear();
    g_shadow.clear();
    g_races.clear();
    g_once_state.clear();
    g_pct_points.clear();
    g_pct_low = 0;
    if (cfg.policy == Policy::PCT)
        for (int i = 0; i + 1 < cfg.pct_depth; ++i) g_pct_points.insert(1 + Rnd() % std::max<uint64_t>(1, cfg.pct_expected_points));
    T* m = new T;
    m->id = 0;
    m->prio = (int64_t)(Rnd() % 1000);
    m->vc.assign(1, 1);
    g_threads.push_back(m);
    t_self = m;
    g_armed = true;
}

void RedrawPct(uint64_t expected_points_from_now)
{
    if (!g_armed || g_cfg.policy != Policy::PCT) return;
    g_pct_points.clear();
    for (int i = 0; i + 1 < g_cfg.pct_depth; ++i) g_pct_points.insert(g_stats.points + 1 + Rnd() % std::max<uint64_t>(1, expected_points_from_now));
    for (T* t : g_threads)
        if (t->st != FINISHED) t->prio = (int64_t)(Rnd() % 1000);
    g_pct_low = 0;
}

void Disarm()
{
    g_armed = false;
    t_self = nullptr;
}
bool Armed() { return g_armed; }

void Settle()
{
    if (!Sim()) return;
    // hand over until every other thread is blocked or finished: put self at the back of the FIFO and yield cooperatively
    for (int guard = 0; guard < 1000000; ++guard) {
        bool other = false;
        for (T* t : g_threads)
            if (t != t_self && t->st == RUNNABLE) other = true;
        if (!other) return;
        T* me = t_self;
        me->runnable_since = ++g_tick;
        // force a switch even under the cooperative policy
        ++g_stats.points;
        ExpireDeadlines(false);
        T* best = nullptr;
        for (T* t : g_threads)
            if (t != me && t->st == RUNNABLE && (!best || t->runnable_since < best->runnable_since)) best = t;
        if (!best) return;
        ++g_stats.switches;
        g_stats.schedule_hash = (g_stats.schedule_hash ^ (uint64_t)(best->id + 1)) * 1099511628211ULL;
        if (g_sched.size() < 4000) g_sched += (char)(best->id < 26 ? 'A' + best->id : 'a' + (best->id - 26) % 26);
        Unpark(best);
        Park(me);
    }
}

void YieldPoint(const char*)
{
    if (!Sim()) return;
    Point();
}

uint64_t NowNs() { return g_now; }
void AdvanceNs(uint64_t ns) { g_now += ns; }
Stats GetStats() { return g_stats; }
std::string ScheduleString() { return g_sched; }
int CurrentThreadId() { return t_self ? t_self->id : -1; }

void SyncRelease(const void* addr)
{
    if (Sim()) Release(t_self, addr);
}
void SyncAcquire(const void* addr)
{
    if (Sim()) Acquire(t_self, addr);
}

void Access(const void* addr, bool is_write, const char* site)
{
    if (!Sim()) return;
    T* me = t_self;
    if (me->vc.size() <= (size_t)me->id) me->vc.resize(me->id + 1, 0);
    Shadow& s = g_shadow[addr];
    auto hb = [&](int tid, uint32_t clk) { return tid == me->id || ((size_t)tid < me->vc.size() && me->vc[tid] >= clk); };
    if (s.w_tid >= 0 && !hb(s.w_tid, s.w_clk) && g_races.size() < 32) g_races.push_back({s.w_site ? s.w_site : "?", site});
    if (is_write) {
        for (auto& [tid, rc] : s.reads)
            if (!hb(tid, rc.first) && g_races.size() < 32) g_races.push_back({rc.second ? rc.second : "?", site});
        s.reads.clear();
        s.w_tid = me->id;
        s.w_clk = me->vc[me->id];
        s.w_site = site;
    } else {
        s.reads[me->id] = {me->vc[me->id], site};
    }
}
std::vector<Race> Races() { return g_races; }

} // namespace threadsim

// ---------------------------------------------------------------------------------------------
// interposers

extern "C" {

int pthread_mutex_lock(pthread_mutex_t* m)
{
    if (!R.ready) { Resolve(); if (!R.ready) return 0; }
    if (!Sim()) return R.mutex_lock(m);
    Point();
    return SimMutexLock(m);
}

int pthread_mutex_trylock(pthread_mutex_t* m)
{
    if (!R.ready) { Resolve(); if (!R.ready) return 0; }
    int r = R.mutex_trylock(m);
    if (r == 0 && Sim()) Acquire(t_self, m);
    return r;
}

int pthread_mutex_unlock(pthread_mutex_t* m)
{
    if (!R.ready) { Resolve(); if (!R.ready) return 0; }
    if (!Sim()) return R.mutex_unlock(m);
    Release(t_self, m);
    int r = R.mutex_unlock(m);
    for (T* t : g_threads)
        if (t->st == B_MUTEX && t->obj == m) MakeRunnable(t);
    Point();
    return r;
}

int pthread_cond_wait(pthread_cond_t* c, pthread_mutex_t* m)
{
    Resolve();
    if (!Sim()) return R.cond_wait(c, m);
    return SimCondWait(c, m, NO_DEADLINE);
}
int pthread_cond_timedwait(pthread_cond_t* c, pthread_mutex_t* m, const struct timespec* abs)
{
    Resolve();
    if (!Sim()) return R.cond_timedwait(c, m, abs);
    return SimCondWait(c, m, AbsDeadline(CLOCK_REALTIME, abs));
}
int pthread_cond_clockwait(pthread_cond_t* c, pthread_mutex_t* m, clockid_t clk, const struct timespec* abs)
{
    Resolve();
    if (!Sim()) return R.cond_clockwait(c, m, clk, abs);
    return SimCondWait(c, m, AbsDeadline(clk, abs));
}
int pthread_cond_signal(pthread_cond_t* c)
{
    Resolve();
    if (!Sim()) return R.cond_signal(c);
    std::vector<T*> w;
    for (T* t : g_threads)
        if (t->st == B_COND && t->obj == c) w.push_back(t);
    if (!w.empty()) {
        Release(t_self, c);
        T* pick = g_cfg.policy == threadsim::Policy::COOPERATIVE ? w[0] : w[Rnd() % w.size()];
        if (g_cfg.policy == threadsim::Policy::COOPERATIVE)
            for (T* t : w)
                if (t->runnable_since < pick->runnable_since) pick = t;
        MakeRunnable(pick);
    }
    Point();
    return 0;
}
int pthread_cond_broadcast(pthread_cond_t* c)
{
    Resolve();
    if (!Sim()) return R.cond_broadcast(c);
    bool any = false;
    for (T* t : g_threads)
        if (t->st == B_COND && t->obj == c) { if (!any) Release(t_self, c); any = true; MakeRunnable(t); }
    Point();
    return 0;
}

int pthread_create(pthread_t* pt, const pthread_attr_t* a, void* (*f)(void*), void* arg)
{
    Resolve();
    if (!Sim()) return R.create(pt, a, f, arg);
    T* t = new T;
    t->id = (int)g_threads.size();
    t->fn = f;
    t->arg = arg;
    t->prio = (int64_t)(Rnd() % 1000);
    t->vc = t_self->vc;
    if (t->vc.size() <= (size_t)t->id) t->vc.resize(t->id + 1, 0);
    t->vc[t->id] = 1;
    Tick(t_self);
    MakeRunnable(t);
    g_threads.push_back(t);
    ++g_stats.threads_created;
    int r = R.create(pt, a, Tramp, t);
    if (r != 0) { t->st = FINISHED; return r; }
    t->pt = *pt;
    Point();
    return 0;
}

int pthread_join(pthread_t pt, void** ret)
{
    Resolve();
    if (Sim()) {
        T* tgt = nullptr;
        for (T* t : g_threads)
            if (t->id && pthread_equal(t->pt, pt)) tgt = t;
        while (tgt && tgt->st != FINISHED) BlockOn(B_JOIN, tgt, NO_DEADLINE);
        if (tgt) Join(t_self->vc, tgt->vc);
    }
    return R.join(pt, ret);
}

static int SimRw(pthread_rwlock_t* l, bool write)
{
    Point();
    for (;;) {
        int r = write ? R.rw_trywrlock(l) : R.rw_tryrdlock(l);
        if (r != EBUSY) {
            if (r == 0) Acquire(t_self, l);
            return r;
        }
        BlockOn(B_RWLOCK, l, NO_DEADLINE);
    }
}
int pthread_rwlock_rdlock(pthread_rwlock_t* l)
{
    Resolve();
    if (!Sim()) return R.rw_rdlock(l);
    return SimRw(l, false);
}
int pthread_rwlock_wrlock(pthread_rwlock_t* l)
{
    Resolve();
    if (!Sim()) return R.rw_wrlock(l);
    return SimRw(l, true);
}
int pthread_rwlock_unlock(pthread_rwlock_t* l)
{
    Resolve();
    if (!Sim()) return R.rw_unlock(l);
    Release(t_self, l);
    int r = R.rw_unlock(l);
    for (T* t : g_threads)
        if (t->st == B_RWLOCK && t->obj == l) MakeRunnable(t);
    Point();
    return r;
}

static int SimSemWait(sem_t* s, uint64_t deadline)
{
    Point();
    for (;;) {
        if (R.sem_trywait_(s) == 0) { Acquire(t_self, s); return 0; }
        if (errno != EAGAIN) return -1;
        BlockOn(B_SEM, s, deadline);
        if (t_self->timed_out) { errno = ETIMEDOUT; return -1; }
    }
}
int sem_wait(sem_t* s)
{
    Resolve();
    if (!Sim()) return R.sem_wait_(s);
    return SimSemWait(s, NO_DEADLINE);
}
int sem_timedwait(sem_t* s, const struct timespec* abs)
{
    Resolve();
    if (!Sim()) return R.sem_timedwait_(s, abs);
    return SimSemWait(s, AbsDeadline(CLOCK_REALTIME, abs));
}
int sem_clockwait(sem_t* s, clockid_t clk, const struct timespec* abs)
{
    Resolve();
    if (!Sim()) return R.sem_clockwait_(s, clk, abs);
    return SimSemWait(s, AbsDeadline(clk, abs));
}
int sem_post(sem_t* s)
{
    Resolve();
    if (!Sim()) return R.sem_post_(s);
    Release(t_self, s);
    int r = R.sem_post_(s);
    for (T* t : g_threads)
        if (t->st == B_SEM && t->obj == s) MakeRunnable(t);
    Point();
    return r;
}

int pthread_once(pthread_once_t* ctl, void (*init)())
{
    Resolve();
    if (!Sim()) return R.once(ctl, init);
    // The control word itself is the state (glibc: bit 1 = done, low bits == 1 = in progress); a table keyed by address
    // would confuse successive once-controls that reuse one address (every std::promise owns one).
    for (;;) {
        int v = __atomic_load_n((int*)ctl, __ATOMIC_ACQUIRE);
        if (v & 2) { Acquire(t_self, ctl); return 0; }
        if ((v & 3) == 1) {
            // another simulated thread is inside the init routine (it yielded there): wait for it
            BlockOn(B_ONCE, ctl, NO_DEADLINE);
            continue;
        }
        int r = R.once(ctl, init);
        Release(t_self, ctl);
        for (T* t : g_threads)
            if (t->st == B_ONCE && t->obj == ctl) MakeRunnable(t);
        return r;
    }
}

long syscall(long nr, ...)
{
    Resolve();
    va_list ap;
    va_start(ap, nr);
    long a = va_arg(ap, long), b = va_arg(ap, long), c = va_arg(ap, long), d = va_arg(ap, long), e = va_arg(ap, long), f = va_arg(ap, long);
    va_end(ap);
    if (nr == SYS_futex && Sim()) {
        int op = (int)b & FUTEX_CMD_MASK;
        if (op == FUTEX_WAIT || op == FUTEX_WAIT_BITSET) {
            if (*(volatile int*)a != (int)c) { errno = EAGAIN; return -1; }
            uint64_t deadline = NO_DEADLINE;
            const struct timespec* ts = (const struct timespec*)d;
            if (ts) {
                if (op == FUTEX_WAIT) deadline = g_now + TsToNs(ts);
                else deadline = AbsDeadline(((int)b & FUTEX_CLOCK_REALTIME) ? CLOCK_REALTIME : CLOCK_MONOTONIC, ts);
            }
            BlockOn(B_FUTEX, (void*)a, deadline);
            if (t_self->timed_out) { errno = ETIMEDOUT; return -1; }
            Acquire(t_self, (void*)a);
            return 0;
        }
        if (op == FUTEX_WAKE || op == FUTEX_WAKE_BITSET) {
            int n = 0;
            for (T* t : g_threads)
                if (t->st == B_FUTEX && t->obj == (void*)a && n < (int)c) { if (!n) Release(t_self, (void*)a); MakeRunnable(t); ++n; }
            Point();
            return n;
        }
    }
    if (!R.syscall) {
        long r = Raw6(nr, a, b, c, d, e, f);
        if (r < 0 && r > -4096) { errno = (int)-r; return -1; }
        return r;
    }
    return R.syscall(nr, a, b, c, d, e, f);
}

int nanosleep(const struct timespec* req, struct timespec* rem)
{
    Resolve();
    if (!Sim()) return R.nanosleep_(req, rem);
    BlockOn(B_SLEEP, nullptr, g_now + TsToNs(req));
    if (rem) { rem->tv_sec = 0; rem->tv_nsec = 0; }
    return 0;
}
int clock_nanosleep(clockid_t clk, int flags, const struct timespec* req, struct timespec* rem)
{
    Resolve();
    if (!Sim()) return R.clock_nanosleep_(clk, flags, req, rem);
    uint64_t dl = (flags & TIMER_ABSTIME) ? AbsDeadline(clk, req) : g_now + TsToNs(req);
    BlockOn(B_SLEEP, nullptr, dl);
    if (rem) { rem->tv_sec = 0; rem->tv_nsec = 0; }
    return 0;
}
int usleep(useconds_t us)
{
    Resolve();
    if (!Sim()) return R.usleep_(us);
    BlockOn(B_SLEEP, nullptr, g_now + (uint64_t)us * 1000ULL);
    return 0;
}
int sched_yield()
{
    Resolve();
    if (!Sim()) return R.sched_yield_();
    if (g_cfg.policy == threadsim::Policy::COOPERATIVE) {
        // a yielding thread lets everybody else run first
        t_self->runnable_since = ++g_tick;
        bool other = false;
        for (T* t : g_threads)
            if (t != t_self && t->st == RUNNABLE) other = true;
        if (other) {
            St keep = t_self->st;
            (void)keep;
            threadsim::Settle();
        }
        return 0;
    }
    Point();
    return 0;
}

int clock_gettime(clockid_t clk, struct timespec* ts)
{
    if (!R.ready) { Resolve(); }
    if (!Sim() || !ts) {
        if (R.clock_gettime_) return R.clock_gettime_(clk, ts);
        long r = Raw6(SYS_clock_gettime, (long)clk, (long)ts, 0, 0, 0, 0);
        if (r < 0) { errno = (int)-r; return -1; }
        return 0;
    }
    uint64_t v;
    switch (clk) {
    case CLOCK_REALTIME:
    case CLOCK_REALTIME_COARSE: v = REAL_BASE_NS + g_now; break;
    case CLOCK_PROCESS_CPUTIME_ID:
    case CLOCK_THREAD_CPUTIME_ID: v = g_now; break;
    default: v = MONO_BASE_NS + g_now; break;
    }
    ts->tv_sec = (time_t)(v / 1000000000ULL);
    ts->tv_nsec = (long)(v % 1000000000ULL);
    return 0;
}

} // extern "C"
