// nodesim: a real node (ChainstateManager + BlockManager + CTxMemPool + ValidationSignals) built per
// instance without TestingSetup, so that several can coexist in one process and be restarted on the
// same (or a reconstructed) data directory.
#pragma once

#include <chainparams.h>
#include <kernel/caches.h>
#include <kernel/notifications_interface.h>
#include <node/blockstorage.h>
#include <node/chainstate.h>
#include <txmempool.h>
#include <util/signalinterrupt.h>
#include <validation.h>
#include <validationinterface.h>

#include <functional>
#include <memory>
#include <optional>
#include <string>
#include <vector>

namespace nodesim {

struct NodeOpts {
    std::string dir;                  //!< data directory (must exist or be creatable)
    bool coins_db_in_memory{true};
    bool block_tree_db_in_memory{true};
    int worker_threads{0};
    int prevout_threads{0};
    std::optional<size_t> sigcache_bytes{1 << 20};   //!< small by default: a 16 MiB table costs ~0.4 s to allocate and zero per node start
    std::optional<size_t> scriptcache_bytes{1 << 20};
    std::optional<uint256> assumed_valid;
    std::optional<arith_uint256> min_chain_work;
    uint64_t total_cache_bytes{32 << 20};
    std::optional<uint64_t> coins_cache_bytes; //!< override of CacheSizes::coins
    uint64_t batch_write_bytes{16 << 20};
    uint64_t prune_target{0};         //!< 0 = no pruning; 1 = manual; else target bytes
    bool fast_prune{false};
    bool with_mempool{true};
    int mempool_check_ratio{1};
    int64_t mempool_max_bytes{300'000'000};
    int64_t mempool_expiry_s{336 * 3600};
    bool require_standard{true};
    std::optional<kernel::MemPoolLimits> limits;
    CChainParams::RegTestOptions regtest{};
    bool immediate_signals{true};     //!< ImmediateTaskRunner (false: caller supplies runner)
    std::unique_ptr<util::TaskRunnerInterface> (*make_runner)(){nullptr};
    int check_level{3};
    int64_t check_blocks{6};          //!< 0 = all
    int check_block_index{1};
    bool require_full_verification{false}; //!< false: level-3 checks may be skipped when the coins cache is too small for them
    std::vector<std::shared_ptr<CValidationInterface>> listeners; //!< registered before anything is loaded or connected
    std::function<void()> after_load;   //!< called between VerifyLoadedChainstate and the first ActivateBestChain
    std::chrono::seconds max_tip_age{std::chrono::hours{24 * 365 * 100}}; //!< never IBD unless asked
};

class SimNotifications : public kernel::Notifications
{
public:
    std::vector<std::string> fatal_errors;
    std::vector<std::string> flush_errors;
    int tips{0};
    kernel::InterruptResult blockTip(SynchronizationState, const CBlockIndex&, double) override { ++tips; return {}; }
    void flushError(const bilingual_str& message) override { flush_errors.push_back(message.original); }
    void fatalError(const bilingual_str& message) override { fatal_errors.push_back(message.original); }
};

/** Records BlockChecked verdicts (the node's own statement about a block it was given). */
class VerdictRecorder : public CValidationInterface
{
public:
    struct Verdict { uint256 hash; bool valid; BlockValidationResult result; std::string reason; };
    std::vector<Verdict> verdicts;
    void BlockChecked(const std::shared_ptr<const CBlock>& block, const BlockValidationState& state) override
    {
        verdicts.push_back({block->GetHash(), state.IsValid(), state.GetResult(), state.GetRejectReason()});
    }
};

class SimNode
{
public:
    NodeOpts opts;
    std::unique_ptr<const CChainParams> params;
    util::SignalInterrupt interrupt;
    std::unique_ptr<SimNotifications> notifications;
    std::unique_ptr<ValidationSignals> signals;
    std::unique_ptr<CTxMemPool> mempool;
    std::unique_ptr<ChainstateManager> chainman;
    std::shared_ptr<VerdictRecorder> verdicts;
    std::string last_error;
    node::ChainstateLoadStatus last_status{node::ChainstateLoadStatus::SUCCESS};

    explicit SimNode(NodeOpts o);
    ~SimNode();

    /** Build the objects and run LoadChainstate -> VerifyLoadedChainstate -> ActivateBestChain.
     *  Returns false (with last_error / last_status) if any step fails. */
    bool Start();
    /** Tear down. clean=true: ForceFlushStateToDisk first (orderly shutdown); false: drop everything unflushed. */
    void Stop(bool clean);
    bool Running() const { return chainman != nullptr; }

    ChainstateManager& cm() { return *chainman; }
    Chainstate& cs() { return chainman->ActiveChainstate(); }
    CTxMemPool& pool() { return *mempool; }
    const CBlockIndex* Tip();
    int Height();
    uint256 TipHash();
    bool Fatal() const { return notifications && (!notifications->fatal_errors.empty() || !notifications->flush_errors.empty()); }

    /** ProcessNewBlock; returns the BlockChecked verdict recorded during the call (if any). */
    struct BlockResult { bool accepted; bool new_block; std::optional<VerdictRecorder::Verdict> verdict; };
    BlockResult ProcessBlock(const std::shared_ptr<const CBlock>& block, bool force_processing = true, bool min_pow_checked = true);
    bool ProcessHeaders(const std::vector<CBlockHeader>& headers, BlockValidationState& state);
    /** UTXO set hash (hash_serialized) of the active chainstate after syncing the cache to the DB. */
    uint256 UtxoHash(uint64_t* ncoins = nullptr, CAmount* total = nullptr);
    void DrainSignals();
};

} // namespace nodesim
