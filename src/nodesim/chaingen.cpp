#include "chaingen.h"

#include <crypto/sha256.h>
#include <hash.h>
#include <pow.h>
#include <script/interpreter.h>
#include <script/script.h>

#include <cassert>

namespace nodesim {

static std::vector<unsigned char> ToVec(const CPubKey& p) { return std::vector<unsigned char>(p.begin(), p.end()); }
static std::vector<unsigned char> ToVec(const uint160& h) { return std::vector<unsigned char>(h.begin(), h.end()); }

static CScript TrueWitnessScript(int key) { return CScript() << (int64_t)(key + 2) << OP_DROP << OP_TRUE; }
static CScript P2pkhScript(const CPubKey& pub) { return CScript() << OP_DUP << OP_HASH160 << ToVec(pub.GetID()) << OP_EQUALVERIFY << OP_CHECKSIG; }
static CScript P2wpkhScript(const CPubKey& pub) { return CScript() << OP_0 << ToVec(pub.GetID()); }

Keyring::Keyring()
{
    for (int i = 0; i < N_KEYS; ++i) {
        unsigned char raw[32];
        for (int j = 0; j < 32; ++j) raw[j] = (unsigned char)(0x21 + 37 * i + j);
        CKey k;
        k.Set(raw, raw + 32, /*compressed=*/true);
        assert(k.IsValid());
        keys.push_back(k);
        pubs.push_back(k.GetPubKey());
    }
    for (int kind = 0; kind < (int)SK::NKINDS; ++kind)
        for (int i = 0; i < N_KEYS; ++i) registry[Spk((SK)kind, i)] = SpendInfo{(SK)kind, i};
    for (size_t size : {(size_t)9999, (size_t)10000})
        for (int i = 0; i < N_KEYS; ++i) registry[BigTrue(size, i)] = SpendInfo{SK::TRUE_BARE, i};
}

CScript Keyring::BigTrue(size_t size, int key) const
{
    key = ((key % N_KEYS) + N_KEYS) % N_KEYS;
    CScript s;
    const size_t target = size - 1; // the final OP_1+key
    // units of <520-byte push> OP_DROP (3 + 520 + 1 bytes), one shorter unit, then OP_NOP padding to the exact size
    while (target - s.size() >= 524) s << std::vector<unsigned char>(520, (unsigned char)(0x50 + key)) << OP_DROP;
    if (const size_t rem = target - s.size(); rem >= 80) s << std::vector<unsigned char>(rem - 44, (unsigned char)0x61) << OP_DROP;
    while (s.size() < target) s << OP_NOP;
    assert(s.size() == target);
    s << (opcodetype)(OP_1 + key);
    return s;
}

CScript Keyring::Spk(SK kind, int key) const
{
    key = ((key % N_KEYS) + N_KEYS) % N_KEYS;
    switch (kind) {
    case SK::TRUE_WSH: {
        CScript ws = TrueWitnessScript(key);
        uint256 h;
        CSHA256().Write(ws.data(), ws.size()).Finalize(h.begin());
        return CScript() << OP_0 << std::vector<unsigned char>(h.begin(), h.end());
    }
    case SK::TRUE_BARE:
        return CScript() << (opcodetype)(OP_1 + key);
    case SK::P2WPKH:
        return P2wpkhScript(pubs[key]);
    case SK::P2PKH:
        return P2pkhScript(pubs[key]);
    case SK::P2TR: {
        XOnlyPubKey x{pubs[key]};
        auto tw = x.CreateTapTweak(nullptr);
        assert(tw);
        return CScript() << OP_1 << std::vector<unsigned char>(tw->first.begin(), tw->first.end());
    }
    case SK::P2SH_P2WPKH: {
        CScript redeem = P2wpkhScript(pubs[key]);
        return CScript() << OP_HASH160 << ToVec(Hash160(redeem)) << OP_EQUAL;
    }
    default:
        return CScript() << OP_RETURN << std::vector<unsigned char>{(unsigned char)key, 0x42};
    }
}

SpendInfo Keyring::Classify(const CScript& spk) const
{
    auto it = registry.find(spk);
    if (it != registry.end()) return it->second;
    if (RefUnspendable(spk)) return SpendInfo{SK::OPRETURN, 0};
    return SpendInfo{};
}

const Keyring& Keys()
{
    static Keyring k;
    return k;
}

CTransactionRef BuildTx(const std::vector<TxIn>& ins, const std::vector<CTxOut>& outs, uint32_t locktime, uint32_t version,
                        SigDefect defect, size_t defect_input, bool& scripts_ok)
{
    const Keyring& kr = Keys();
    CMutableTransaction mtx;
    mtx.version = version;
    mtx.nLockTime = locktime;
    for (auto& in : ins) mtx.vin.emplace_back(in.prevout, CScript(), in.sequence);
    mtx.vout = outs;
    scripts_ok = true;
    std::vector<CTxOut> spent;
    for (auto& in : ins) spent.emplace_back(in.coin.value, in.coin.spk);
    // P2SH-P2WPKH scriptSigs must be in place before any sighash is computed? No: BIP143/341 sighashes do not
    // commit to scriptSigs, legacy sighash blanks them. Order of signing is therefore free.
    for (size_t i = 0; i < ins.size(); ++i) {
        SpendInfo si = kr.Classify(ins[i].coin.spk);
        SigDefect d = (defect != SigDefect::NONE && i == defect_input % ins.size()) ? defect : SigDefect::NONE;
        int signer = si.key;
        if (d == SigDefect::WRONG_KEY) signer = (si.key + 1) % N_KEYS;
        auto corrupt = [&](std::vector<unsigned char>& sig) {
            if (d == SigDefect::BAD_SIG && sig.size() > 12) sig[sig.size() / 2] ^= 0x10;
        };
        switch (si.kind) {
        case SK::TRUE_WSH: {
            CScript ws = TrueWitnessScript(d == SigDefect::BAD_SIG || d == SigDefect::WRONG_KEY ? si.key + 1 : si.key);
            mtx.vin[i].scriptWitness.stack = {std::vector<unsigned char>(ws.begin(), ws.end())};
            if (d == SigDefect::BAD_SIG || d == SigDefect::WRONG_KEY) scripts_ok = false;
            break;
        }
        case SK::TRUE_BARE:
            break; // nothing to provide, nothing to corrupt
        case SK::P2WPKH:
        case SK::P2SH_P2WPKH: {
            CScript code = P2pkhScript(kr.pubs[si.key]);
            uint256 h = SignatureHash(code, mtx, i, SIGHASH_ALL, ins[i].coin.value, SigVersion::WITNESS_V0);
            std::vector<unsigned char> sig;
            kr.keys[signer].Sign(h, sig);
            corrupt(sig);
            sig.push_back(SIGHASH_ALL);
            mtx.vin[i].scriptWitness.stack = {sig, ToVec(kr.pubs[si.key])};
            if (si.kind == SK::P2SH_P2WPKH) {
                CScript redeem = P2wpkhScript(kr.pubs[si.key]);
                mtx.vin[i].scriptSig = CScript() << std::vector<unsigned char>(redeem.begin(), redeem.end());
            }
            if (d == SigDefect::BAD_SIG || d == SigDefect::WRONG_KEY) scripts_ok = false;
            break;
        }
        case SK::P2PKH: {
            uint256 h = SignatureHash(ins[i].coin.spk, mtx, i, SIGHASH_ALL, ins[i].coin.value, SigVersion::BASE);
            std::vector<unsigned char> sig;
            kr.keys[signer].Sign(h, sig);
            corrupt(sig);
            sig.push_back(SIGHASH_ALL);
            mtx.vin[i].scriptSig = CScript() << sig << ToVec(kr.pubs[si.key]);
            if (d == SigDefect::BAD_SIG || d == SigDefect::WRONG_KEY) scripts_ok = false;
            break;
        }
        case SK::P2TR:
            break; // second pass (needs all scriptSigs? no, but needs spent outputs) below
        default:
            // unknown script: the generator cannot satisfy it
            scripts_ok = false;
            break;
        }
    }
    for (size_t i = 0; i < ins.size(); ++i) {
        SpendInfo si = kr.Classify(ins[i].coin.spk);
        if (si.kind != SK::P2TR) continue;
        SigDefect d = (defect != SigDefect::NONE && i == defect_input % ins.size()) ? defect : SigDefect::NONE;
        int signer = d == SigDefect::WRONG_KEY ? (si.key + 1) % N_KEYS : si.key;
        PrecomputedTransactionData txdata;
        txdata.Init(mtx, std::vector<CTxOut>(spent), /*force=*/true);
        ScriptExecutionData execdata;
        execdata.m_annex_init = true;
        execdata.m_annex_present = false;
        uint256 h;
        bool ok = SignatureHashSchnorr(h, execdata, mtx, i, SIGHASH_DEFAULT, SigVersion::TAPROOT, txdata, MissingDataBehavior::FAIL);
        assert(ok);
        std::vector<unsigned char> sig(64);
        uint256 no_root;
        kr.keys[signer].SignSchnorr(h, sig, &no_root, uint256{});
        if (d == SigDefect::BAD_SIG) sig[40] ^= 0x10;
        mtx.vin[i].scriptWitness.stack = {sig};
        if (d == SigDefect::BAD_SIG || d == SigDefect::WRONG_KEY) scripts_ok = false;
    }
    if (defect == SigDefect::STRIP_WITNESS) {
        size_t i = defect_input % ins.size();
        SpendInfo si = kr.Classify(ins[i].coin.spk);
        if (!mtx.vin[i].scriptWitness.IsNull()) {
            mtx.vin[i].scriptWitness.SetNull();
            (void)si;
            scripts_ok = false;
        }
    }
    return MakeTransactionRef(std::move(mtx));
}

void Grind(CBlockHeader& h, const Consensus::Params& cp, bool want_bad)
{
    for (;; ++h.nNonce) {
        bool ok = CheckProofOfWork(h.GetHash(), h.nBits, cp);
        if (ok != want_bad) return;
    }
}

static void SetCommitment(CBlock& b)
{
    CMutableTransaction cb(*b.vtx[0]);
    // remove an old commitment output, if any
    for (size_t o = 0; o < cb.vout.size();) {
        const CScript& s = cb.vout[o].scriptPubKey;
        if (s.size() >= 38 && s[0] == OP_RETURN && s[1] == 0x24 && s[2] == 0xaa && s[3] == 0x21 && s[4] == 0xa9 && s[5] == 0xed) cb.vout.erase(cb.vout.begin() + o);
        else ++o;
    }
    cb.vin[0].scriptWitness.stack = {std::vector<unsigned char>(32, 0)};
    b.vtx[0] = MakeTransactionRef(cb);
    uint256 root = RefWitnessMerkleRoot(b);
    uint256 commit;
    CHash256().Write(root).Write(cb.vin[0].scriptWitness.stack[0]).Finalize(commit);
    std::vector<unsigned char> spk{OP_RETURN, 0x24, 0xaa, 0x21, 0xa9, 0xed};
    spk.insert(spk.end(), commit.begin(), commit.end());
    cb.vout.emplace_back(0, CScript(spk.begin(), spk.end()));
    b.vtx[0] = MakeTransactionRef(cb);
}

void FinalizeBlock(CBlock& b, const Consensus::Params& cp, bool with_commitment)
{
    if (with_commitment) SetCommitment(b);
    b.hashMerkleRoot = RefBlockMerkleRoot(b);
    Grind(b, cp);
}

std::shared_ptr<CBlock> BuildBlock(const uint256& prev_hash, int height, int64_t time, const std::vector<CTransactionRef>& txs,
                                   CAmount coinbase_value, const BlockExtras& ex, const Consensus::Params& cp)
{
    auto b = std::make_shared<CBlock>();
    b->nVersion = ex.version;
    b->hashPrevBlock = prev_hash;
    b->nTime = (uint32_t)time;
    b->nBits = UintToArith256(cp.powLimit).GetCompact();
    b->nNonce = 0;
    CMutableTransaction cb;
    cb.vin.resize(1);
    cb.vin[0].prevout.SetNull();
    int h = ex.wrong_bip34_height ? height + 1 : height;
    cb.vin[0].scriptSig = CScript() << h << OP_0;
    if (ex.cb_extranonce) cb.vin[0].scriptSig << (int64_t)*ex.cb_extranonce;
    cb.vout.emplace_back(coinbase_value, ex.coinbase_spk ? *ex.coinbase_spk : Keys().Spk(SK::TRUE_WSH, 0));
    for (auto& o : ex.extra_coinbase_outputs) cb.vout.push_back(o);
    b->vtx.push_back(MakeTransactionRef(cb));
    for (auto& tx : txs) b->vtx.push_back(tx);
    if (!ex.omit_witness_commitment) SetCommitment(*b);
    if (ex.bad_witness_commitment) {
        CMutableTransaction m(*b->vtx[0]);
        m.vout.back().scriptPubKey[10] ^= 1;
        b->vtx[0] = MakeTransactionRef(m);
    }
    b->hashMerkleRoot = RefBlockMerkleRoot(*b);
    if (ex.bad_merkle) *b->hashMerkleRoot.begin() ^= 1;
    Grind(*b, cp, ex.bad_pow);
    return b;
}

} // namespace nodesim
