// chainsim — the shared chain-history workload of nodesim: a seeded generator of block trees with labelled
// defects, delivered to a real node in arbitrary order (headers/blocks, duplicates, children before parents,
// unrequested), with manual invalidation, clean restarts, flushes and clock steps, checked after every
// operation against RefChain. Properties select oracle modules and bias the op/defect mix through knobs.
#pragma once

#include "../core/sim.h"
#include "chaingen.h"
#include "refchain.h"
#include "simnode.h"

#include <functional>
#include <memory>
#include <set>

namespace nodesim {

enum ChainOp { OP_MINE = 0, OP_DELIVER, OP_HEADER, OP_INVALIDATE, OP_RECONSIDER, OP_RESTART, OP_FLUSH, OP_CLOCK, OP_CHECK_UTXO, OP_REORG, OP_NCHAINOPS };

enum Defect {
    D_NONE = 0,
    // value rules (C01)
    D_CB_OVERPAY, D_IN_BELOW_OUT, D_OUT_TOO_LARGE, D_OUT_NEGATIVE, D_OUT_SUM_OVERFLOW,
    // spend rules (C02)
    D_MISSING_INPUT, D_SPENT_INPUT, D_LATER_IN_BLOCK, D_DUP_INPUT, D_DOUBLE_SPEND_IN_BLOCK, D_SPEND_UNSPENDABLE,
    // timelocks / maturity (C05)
    D_PREMATURE_CB, D_NONFINAL_HEIGHT, D_NONFINAL_TIME, D_BIP68_HEIGHT, D_BIP68_TIME,
    // scripts
    D_BAD_SIG, D_STRIP_WITNESS, D_WRONG_KEY,
    // header/body binding (-> MUTATED)
    D_BAD_MERKLE, D_BAD_COMMITMENT,
    // header / structure
    D_BAD_POW, D_WRONG_BIP34, D_TIME_TOO_OLD, D_SECOND_COINBASE, D_OLD_VERSION,
    D_NDEFECTS
};
const char* DefectName(int d);

/** Boundary-valid shapes: blocks that are valid but sit exactly on a rule's boundary. */
enum Boundary { B_NONE = 0, B_CB_EXACT, B_LOCKTIME_HEIGHT_OK, B_LOCKTIME_TIME_OK, B_BIP68_HEIGHT_OK, B_BIP68_TIME_OK, B_CB_SPEND_100, B_TIME_MTP_PLUS1, B_ZERO_FEE_EQUAL, B_NBOUNDARY };

struct ChainSimConfig {
    bool check_most_work{true};     //!< C08 oracle
    bool check_utxo_equal{false};   //!< C09/C01/C02: cursor-read UTXO set == model UTXO(tip) after tip changes
    bool check_supply{false};       //!< C01: total <= subsidy sum
    bool check_reject_leaves_state{false}; //!< C02: rejected delivery leaves tip+UTXO unchanged
};

std::string DescribeChainOp(const sim::Op& op);
/** Generate a chain-history plan. `bias` selects which defect families / boundary shapes dominate. */
sim::Plan GenChainPlan(uint64_t seed, sim::Tier tier, const std::string& bias);

class ChainSim
{
public:
    sim::Ctx& ctx;
    ChainSimConfig cfg;
    std::unique_ptr<SimNode> node;
    std::unique_ptr<RefChain> ref;
    int64_t now{0};
    std::set<int> manual_invalid;          //!< model of InvalidateBlock/ResetBlockFailureFlags
    //! Roots of subtrees whose failure marks are left undecided: reconsiderblock(B) clears B, its ancestors and its descendants;
    //! branches that fork off the path between an invalidated ancestor X and B keep whatever mark they had. The property says
    //! nothing about them, so blocks under these roots are neither required nor forbidden as tip.
    std::set<int> manual_maybe;
    bool UnderManualMaybe(int idx) const;
    void ModelReconsider(int b);
    std::vector<char> delivered;           //!< per ref block: full block given to the node at least once
    std::vector<char> header_given;
    uint64_t cb_nonce{0};
    int coinbase_pad_min{0}, coinbase_pad_max{0}; //!< bytes of OP_RETURN padding per mined block (0 = none)
    struct DeliveryRec { int idx; bool force; bool accepted; bool has_verdict; bool valid; int result; std::string reason; };
    std::vector<DeliveryRec> delivery_log;  //!< every ProcessNewBlock call in order (twin runs replay it)
    int64_t start_time{0};
    int64_t start_shift{0};           //!< added to the initial mock time (blocks then lag the clock: the node stays in initial block download when max_tip_age is small)
    bool next_block_time_now{false};  //!< the next defect-free block mined takes the current mock time as its timestamp (ends such an IBD phase)
    int reorgs{0};
    std::function<void(NodeOpts&)> tweak_opts;              //!< engines adjust node options before the node starts
    std::function<void(int flush_mode)> on_full_flush;      //!< called right after a forced full flush (or clean restart) returned
    std::function<void()> on_node_started;                  //!< after every (re)start of the node

    ChainSim(sim::Ctx& c, ChainSimConfig cf) : ctx(c), cfg(cf) {}
    void Run();
    void Setup();
    void ExecOp(const sim::Op& op);
    void Finish();

    // building blocks, also used by other engines
    void StartNode();
    void MineBase(int n);
    int MineOn(int parent, int ntx, uint64_t txseed, int defect, int boundary, int time_mode);
    /** Register an externally built block (e.g. one that confirms mempool transactions) with the model. */
    int AddBlock(std::shared_ptr<const CBlock> block, int parent, const BlockLabel& label);
    void Deliver(int idx, bool force);
    void CheckAll(const char* where);
    void CheckUtxo(const char* where);
    bool UnderManualInvalidation(int idx) const;
    int TipIdx();
};

} // namespace nodesim
