// peersim — the real P2P message layer (PeerManager + CConnman bookkeeping + CNode + V1/V2 transport framing of incoming
// messages) of one SimNode, with scripted peers. The simulator's event loop replaces the `net` and `msghand` threads:
// "peer P sends message M" = bytes through the node-side transport into CNode::ReceiveMsgBytes, then seeded
// ProcessMessages / SendMessages ticks under g_msgproc_mutex. Everything the node sends is captured per peer through the
// existing CaptureMessage test seam (type + payload), so oracles see the node's real wire behaviour without sockets.
#pragma once

#include "simnode.h"

#include <addrman.h>
#include <banman.h>
#include <net.h>
#include <net_processing.h>
#include <netgroup.h>
#include <node/warnings.h>
#include <test/util/net.h>

#include <deque>
#include <map>
#include <memory>
#include <string>
#include <vector>

namespace nodesim {

struct SentMsg {
    std::string type;
    std::vector<unsigned char> payload;
    uint64_t seq; //!< global order of capture
};

struct PeerOpts {
    ConnectionType conn_type{ConnectionType::INBOUND};
    NetPermissionFlags permissions{NetPermissionFlags::None};
    ServiceFlags services{ServiceFlags(NODE_NETWORK | NODE_WITNESS)};
    bool relay_txs{true};
    bool wtxidrelay{true};
    bool sendheaders{false};
    bool local_addr{false};      //!< 127.0.0.x instead of a routable address
    int32_t version{70016};
    bool complete_handshake{true};
};

class SimPeer
{
public:
    int idx{0};
    NodeId id{0};
    CNode* node{nullptr};        //!< owned by the connman's test-node list
    CAddress addr;
    PeerOpts opts;
    std::deque<SentMsg> inbox;   //!< what the node sent to this peer, oldest first
    bool finalized{false};
};

class NetNode
{
public:
    SimNode& sn;
    std::unique_ptr<node::Warnings> warnings;
    std::unique_ptr<NetGroupManager> netgroupman;
    std::unique_ptr<AddrMan> addrman;
    std::unique_ptr<BanMan> banman;
    std::unique_ptr<ConnmanTestMsg> connman;
    std::unique_ptr<PeerManager> peerman;
    std::vector<std::unique_ptr<SimPeer>> peers;
    uint64_t capture_seq{0};
    uint64_t msgs_to_node{0};
    bool auto_pong{true};          //!< scripted peers answer `ping` (queued for the next tick)

    explicit NetNode(SimNode& node, PeerManager::Options popts = {});
    ~NetNode();

    SimPeer& AddPeer(const PeerOpts& o);
    /** Deliver one message from the peer: framed by the node-side transport, fed through ReceiveMsgBytes. */
    void Send(SimPeer& p, CSerializedNetMsg&& msg);
    template <typename... Args>
    void SendMsg(SimPeer& p, const std::string& type, Args&&... args) { Send(p, NetMsg::Make(type, std::forward<Args>(args)...)); }
    /** Raw (possibly undecodable) payload under a message type. */
    void SendRaw(SimPeer& p, const std::string& type, std::vector<unsigned char> payload);
    /** One msghand iteration for this peer: ProcessMessages (up to `max_msgs` queued messages) then SendMessages. */
    void Tick(SimPeer& p, int max_msgs = 1);
    /** Tick every peer until no peer has queued input (bounded). */
    void Settle(int rounds = 8);
    void Disconnect(SimPeer& p);
    bool Discouraged(const SimPeer& p) const;
    bool Banned(const SimPeer& p) const;
    /** Pop all captured messages of a type for the peer (others stay). */
    std::vector<SentMsg> Take(SimPeer& p, const std::string& type);
    size_t Count(const SimPeer& p, const std::string& type) const;
};

} // namespace nodesim
