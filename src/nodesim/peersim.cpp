#include "peersim.h"

#include <netaddress.h>
#include <netbase.h>
#include <protocol.h>
#include <util/fs.h>
#include <util/time.h>

#include <algorithm>

namespace nodesim {

namespace {
// CaptureMessage is one process-wide function: route by peer address (unique per simulated peer)
std::map<std::string, std::pair<NetNode*, int>>& Routes()
{
    static std::map<std::string, std::pair<NetNode*, int>> r;
    return r;
}
bool g_capture_installed = false;
void Capture(const CAddress& addr, const std::string& msg_type, std::span<const unsigned char> data, bool is_incoming)
{
    if (is_incoming) return;
    auto it = Routes().find(addr.ToStringAddrPort());
    if (it == Routes().end()) return;
    NetNode* n = it->second.first;
    SimPeer& p = *n->peers[it->second.second];
    p.inbox.push_back(SentMsg{msg_type, std::vector<unsigned char>(data.begin(), data.end()), ++n->capture_seq});
}
} // namespace

NetNode::NetNode(SimNode& node, PeerManager::Options popts) : sn(node)
{
    if (!g_capture_installed) {
        CaptureMessage = Capture;
        g_capture_installed = true;
    }
    warnings = std::make_unique<node::Warnings>();
    netgroupman = std::make_unique<NetGroupManager>(NetGroupManager::NoAsmap());
    addrman = std::make_unique<AddrMan>(*netgroupman, /*deterministic=*/true, /*consistency_check_ratio=*/0);
    fs::path ban = fs::PathFromString(sn.opts.dir) / "banlist";
    banman = std::make_unique<BanMan>(ban, nullptr, DEFAULT_MISBEHAVING_BANTIME);
    connman = std::make_unique<ConnmanTestMsg>(0x1337, 0x1337, *addrman, *netgroupman, *sn.params);
    popts.deterministic_rng = true;
    peerman = PeerManager::make(*connman, *addrman, banman.get(), sn.cm(), sn.pool(), *warnings, popts);
    CConnman::Options co;
    co.m_msgproc = peerman.get();
    co.m_banman = banman.get();
    co.m_local_services = ServiceFlags(NODE_NETWORK | NODE_WITNESS);
    connman->Init(co);
    connman->SetCaptureMessages(true);
    sn.signals->RegisterValidationInterface(peerman.get());
}

NetNode::~NetNode()
{
    if (sn.signals) sn.signals->UnregisterValidationInterface(peerman.get());
    for (auto& p : peers) {
        if (!p->finalized && p->node) peerman->FinalizeNode(*p->node);
        Routes().erase(p->addr.ToStringAddrPort());
    }
    connman->ClearTestNodes();
    peerman.reset();
    connman.reset();
}

SimPeer& NetNode::AddPeer(const PeerOpts& o)
{
    auto p = std::make_unique<SimPeer>();
    p->idx = (int)peers.size();
    p->id = p->idx;
    p->opts = o;
    char ip[64];
    if (o.local_addr) snprintf(ip, sizeof ip, "127.0.0.%d", 2 + p->idx % 250);
    else snprintf(ip, sizeof ip, "8.%d.%d.%d", 1 + (p->idx / 250) % 250, 1 + p->idx % 250, 7);
    std::optional<CNetAddr> na = LookupHost(ip, false);
    CService svc(*na, (uint16_t)(8333 + p->idx));
    p->addr = CAddress(svc, o.services);
    CNodeOptions no;
    no.permission_flags = o.permissions;
    p->node = new CNode(p->id, std::make_shared<ZeroSock>(), p->addr, /*nKeyedNetGroupIn=*/(uint64_t)p->idx * 1315423911u + 7, /*nLocalHostNonceIn=*/(uint64_t)p->idx + 1000,
                        CService{}, /*addrNameIn=*/"", o.conn_type, /*inbound_onion=*/false, /*network_key=*/0, std::move(no));
    connman->AddTestNode(*p->node);
    Routes()[p->addr.ToStringAddrPort()] = {this, p->idx};
    peers.push_back(std::move(p));
    SimPeer& peer = *peers.back();
    {
        LOCK(NetEventsInterface::g_msgproc_mutex);
        peerman->InitializeNode(*peer.node, ServiceFlags(NODE_NETWORK | NODE_WITNESS));
        peerman->SendMessages(*peer.node); // outbound: the node sends its version first
    }
    connman->FlushSendBuffer(*peer.node);
    if (!o.complete_handshake) return peer;
    SendMsg(peer, NetMsgType::VERSION, o.version, Using<CustomUintFormatter<8>>(o.services), int64_t{GetTime()}, int64_t{}, CNetAddr::V1(CService{}), int64_t{}, CNetAddr::V1(CService{}),
            uint64_t{(uint64_t)peer.idx + 77}, std::string{"/simpeer/"}, int32_t{0}, o.relay_txs);
    Tick(peer);
    if (peer.node->fDisconnect) return peer;
    if (o.wtxidrelay) SendMsg(peer, NetMsgType::WTXIDRELAY);
    SendMsg(peer, NetMsgType::VERACK);
    Tick(peer, 4);
    if (o.sendheaders) { SendMsg(peer, NetMsgType::SENDHEADERS); Tick(peer); }
    return peer;
}

void NetNode::Send(SimPeer& p, CSerializedNetMsg&& msg)
{
    if (p.finalized) return;
    ++msgs_to_node;
    (void)connman->ReceiveMsgFrom(*p.node, std::move(msg));
    p.node->fPauseRecv = false;
}

void NetNode::SendRaw(SimPeer& p, const std::string& type, std::vector<unsigned char> payload)
{
    CSerializedNetMsg m;
    m.m_type = type;
    m.data = std::move(payload);
    Send(p, std::move(m));
}

void NetNode::Tick(SimPeer& p, int max_msgs)
{
    if (p.finalized) return;
    LOCK(NetEventsInterface::g_msgproc_mutex);
    for (int i = 0; i < max_msgs; ++i) {
        p.node->fPauseSend = false;
        bool more = connman->ProcessMessagesOnce(*p.node);
        if (!more) break;
    }
    peerman->SendMessages(*p.node);
    connman->FlushSendBuffer(*p.node);
    sn.DrainSignals();
    if (auto_pong) {
        // a live peer answers pings; otherwise every scripted peer would be dropped by the 20-minute ping timeout
        for (auto it = p.inbox.begin(); it != p.inbox.end();) {
            if (it->type == NetMsgType::PING) {
                std::vector<unsigned char> nonce = it->payload;
                it = p.inbox.erase(it);
                CSerializedNetMsg m;
                m.m_type = NetMsgType::PONG;
                m.data = nonce;
                ++msgs_to_node;
                (void)connman->ReceiveMsgFrom(*p.node, std::move(m));
            } else ++it;
        }
    }
}

void NetNode::Settle(int rounds)
{
    for (int r = 0; r < rounds; ++r)
        for (auto& p : peers)
            if (!p->finalized) Tick(*p, 2);
}

void NetNode::Disconnect(SimPeer& p)
{
    if (p.finalized) return;
    p.node->fDisconnect = true;
    peerman->FinalizeNode(*p.node);
    p.finalized = true;
}

bool NetNode::Discouraged(const SimPeer& p) const { return banman->IsDiscouraged(p.addr); }
bool NetNode::Banned(const SimPeer& p) const { return banman->IsBanned(p.addr); }

std::vector<SentMsg> NetNode::Take(SimPeer& p, const std::string& type)
{
    std::vector<SentMsg> out;
    for (auto it = p.inbox.begin(); it != p.inbox.end();) {
        if (it->type == type) { out.push_back(std::move(*it)); it = p.inbox.erase(it); } else ++it;
    }
    return out;
}

size_t NetNode::Count(const SimPeer& p, const std::string& type) const
{
    return (size_t)std::count_if(p.inbox.begin(), p.inbox.end(), [&](const SentMsg& m) { return m.type == type; });
}

} // namespace nodesim
