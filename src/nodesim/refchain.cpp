#include "refchain.h"

#include <hash.h>
#include <script/script.h>

#include <algorithm>

namespace nodesim {

static uint256 H2(const uint256& a, const uint256& b)
{
    uint256 out;
    CHash256().Write(a).Write(b).Finalize(out);
    return out;
}

uint256 RefMerkleRoot(std::vector<uint256> l, bool* mutated)
{
    bool mut = false;
    if (l.empty()) {
        if (mutated) *mutated = false;
        return uint256{};
    }
    while (l.size() > 1) {
        for (size_t i = 0; i + 1 < l.size(); i += 2)
            if (l[i] == l[i + 1]) mut = true;
        if (l.size() & 1) l.push_back(l.back());
        std::vector<uint256> n;
        for (size_t i = 0; i < l.size(); i += 2) n.push_back(H2(l[i], l[i + 1]));
        l.swap(n);
    }
    if (mutated) *mutated = mut;
    return l[0];
}

std::vector<uint256> RefMerkleBranch(std::vector<uint256> l, size_t pos)
{
    std::vector<uint256> br;
    while (l.size() > 1) {
        if (l.size() & 1) l.push_back(l.back());
        br.push_back(l[pos ^ 1]);
        std::vector<uint256> n;
        for (size_t i = 0; i < l.size(); i += 2) n.push_back(H2(l[i], l[i + 1]));
        l.swap(n);
        pos >>= 1;
    }
    return br;
}

uint256 RefBlockMerkleRoot(const CBlock& b, bool* mutated)
{
    std::vector<uint256> l;
    for (auto& tx : b.vtx) l.push_back(tx->GetHash().ToUint256());
    return RefMerkleRoot(l, mutated);
}

uint256 RefWitnessMerkleRoot(const CBlock& b)
{
    std::vector<uint256> l;
    for (size_t i = 0; i < b.vtx.size(); ++i) l.push_back(i == 0 ? uint256{} : b.vtx[i]->GetWitnessHash().ToUint256());
    return RefMerkleRoot(l);
}

CAmount RefSubsidy(int height, int halving_interval)
{
    int halvings = height / halving_interval;
    if (halvings >= 64) return 0;
    return (CAmount)(5000000000LL >> halvings);
}

CAmount RefSubsidySum(int height, int halving_interval)
{
    CAmount s = 0;
    for (int h = 1; h <= height; ++h) s += RefSubsidy(h, halving_interval);
    return s;
}

bool RefUnspendable(const CScript& spk)
{
    return (spk.size() > 0 && spk[0] == OP_RETURN) || spk.size() > 10000;
}

void RefApplyTx(RefUtxo& view, const CTransaction& tx, int height)
{
    if (!tx.IsCoinBase())
        for (auto& in : tx.vin) view.erase(in.prevout);
    for (size_t i = 0; i < tx.vout.size(); ++i) {
        if (RefUnspendable(tx.vout[i].scriptPubKey)) continue;
        view[COutPoint(tx.GetHash(), (uint32_t)i)] = RefCoin{tx.vout[i].nValue, tx.vout[i].scriptPubKey, height, tx.IsCoinBase()};
    }
}

RefChain::RefChain(const CBlock& genesis)
{
    RefBlock g;
    g.block = std::make_shared<const CBlock>(genesis);
    g.hash = genesis.GetHash();
    g.parent = -1;
    g.height = 0;
    g.time = genesis.GetBlockTime();
    g.verdict = Verdict::VALID;
    g.utxo = std::make_shared<const RefUtxo>(); // the genesis coinbase is not spendable
    blocks.push_back(g);
    by_hash[g.hash] = 0;
}

int RefChain::Find(const uint256& h) const
{
    auto it = by_hash.find(h);
    return it == by_hash.end() ? -1 : it->second;
}

int RefChain::Ancestor(int idx, int height) const
{
    while (idx >= 0 && blocks[idx].height > height) idx = blocks[idx].parent;
    return idx;
}

bool RefChain::IsAncestor(int anc, int idx) const
{
    return Ancestor(idx, blocks[anc].height) == anc;
}

int RefChain::ForkPoint(int a, int b) const
{
    while (a != b) {
        if (blocks[a].height >= blocks[b].height) a = blocks[a].parent;
        else b = blocks[b].parent;
    }
    return a;
}

std::vector<int> RefChain::PathFrom(int fork, int idx) const
{
    std::vector<int> p;
    while (idx != fork && idx >= 0) { p.push_back(idx); idx = blocks[idx].parent; }
    std::reverse(p.begin(), p.end());
    return p;
}

int64_t RefChain::MTP(int idx) const
{
    std::vector<int64_t> t;
    for (int i = 0; i < 11 && idx >= 0; ++i, idx = blocks[idx].parent) t.push_back(blocks[idx].time);
    std::sort(t.begin(), t.end());
    return t[t.size() / 2];
}

bool RefChain::IsFinal(const CTransaction& tx, int height, int64_t cutoff) const
{
    if (tx.nLockTime == 0) return true;
    int64_t lt = tx.nLockTime;
    if (lt < (lt < 500000000 ? (int64_t)height : cutoff)) return true;
    for (auto& in : tx.vin)
        if (in.nSequence != 0xffffffffu) return false;
    return true;
}

bool RefChain::SequenceLocksOk(const CTransaction& tx, const RefUtxo& view, int height, int prev_idx) const
{
    if (tx.version < 2 || height < csv_height) return true;
    int64_t min_height = -1, min_time = -1;
    for (auto& in : tx.vin) {
        if (in.nSequence & (1u << 31)) continue;
        auto it = view.find(in.prevout);
        if (it == view.end()) return true; // judged elsewhere
        int coin_height = it->second.height;
        if (in.nSequence & (1u << 22)) {
            int anc = Ancestor(prev_idx, std::max(coin_height - 1, 0));
            int64_t coin_time = MTP(anc);
            min_time = std::max<int64_t>(min_time, coin_time + (int64_t)((in.nSequence & 0xffff) << 9) - 1);
        } else {
            min_height = std::max<int64_t>(min_height, coin_height + (int64_t)(in.nSequence & 0xffff) - 1);
        }
    }
    return min_height < height && min_time < MTP(prev_idx);
}

std::string RefChain::CheckTxContextual(const CTransaction& tx, const RefUtxo& view, int height, int prev_idx, CAmount& fee_out) const
{
    CAmount in_sum = 0;
    std::set<COutPoint> seen;
    for (auto& in : tx.vin) {
        if (!seen.insert(in.prevout).second) return "dup-input";
        auto it = view.find(in.prevout);
        if (it == view.end()) return "missing-input";
        const RefCoin& c = it->second;
        if (c.coinbase && height - c.height < maturity) return "premature-coinbase-spend";
        if (c.value < 0 || c.value > MAX_MONEY) return "input-value-range";
        in_sum += c.value;
        if (in_sum < 0 || in_sum > MAX_MONEY) return "input-value-range";
    }
    CAmount out_sum = 0;
    for (auto& o : tx.vout) {
        if (o.nValue < 0) return "output-negative";
        if (o.nValue > MAX_MONEY) return "output-too-large";
        out_sum += o.nValue;
        if (out_sum < 0 || out_sum > MAX_MONEY) return "output-sum-range";
    }
    if (in_sum < out_sum) return "in-below-out";
    fee_out = in_sum - out_sum;
    if (fee_out < 0 || fee_out > MAX_MONEY) return "fee-range";
    if (!SequenceLocksOk(tx, view, height, prev_idx)) return "bip68-unsatisfied";
    return "";
}

static std::string ContextFree(const CTransaction& tx)
{
    if (tx.vin.empty()) return "no-inputs";
    if (tx.vout.empty()) return "no-outputs";
    CAmount s = 0;
    for (auto& o : tx.vout) {
        if (o.nValue < 0) return "output-negative";
        if (o.nValue > MAX_MONEY) return "output-too-large";
        s += o.nValue;
        if (s < 0 || s > MAX_MONEY) return "output-sum-range";
    }
    std::set<COutPoint> seen;
    for (auto& in : tx.vin)
        if (!seen.insert(in.prevout).second) return "dup-input";
    if (tx.IsCoinBase()) {
        if (tx.vin[0].scriptSig.size() < 2 || tx.vin[0].scriptSig.size() > 100) return "cb-scriptsig-length";
    } else {
        for (auto& in : tx.vin)
            if (in.prevout.IsNull()) return "null-prevout";
    }
    return "";
}

int RefChain::Add(std::shared_ptr<const CBlock> block, int parent, const BlockLabel& label)
{
    RefBlock b;
    b.block = block;
    b.hash = block->GetHash();
    b.parent = parent;
    b.height = blocks[parent].height + 1;
    b.time = block->GetBlockTime();
    b.label = label;
    auto finish = [&](Verdict v, const std::string& why) {
        b.verdict = v;
        b.reason = why;
        int idx = (int)blocks.size();
        blocks.push_back(b);
        by_hash[b.hash] = idx;
        blocks[parent].children.push_back(idx);
        return idx;
    };
    const RefBlock& p = blocks[parent];
    if (p.verdict != Verdict::VALID) return finish(Verdict::INVALID_ANCESTOR, "ancestor-not-valid");
    if (!label.pow_ok) return finish(Verdict::INVALID, "pow:" + label.defect);
    if (b.time <= MTP(parent)) return finish(Verdict::INVALID, "time-too-old");
    if (block->vtx.empty() || !block->vtx[0]->IsCoinBase()) return finish(Verdict::INVALID, "no-coinbase");
    for (size_t i = 1; i < block->vtx.size(); ++i)
        if (block->vtx[i]->IsCoinBase()) return finish(Verdict::INVALID, "second-coinbase");
    // header <-> body binding
    {
        bool mut = false;
        if (RefBlockMerkleRoot(*block, &mut) != block->hashMerkleRoot) return finish(Verdict::MUTATED, "merkle-root-mismatch");
        if (mut) return finish(Verdict::MUTATED, "merkle-duplicate");
        // witness commitment (segwit always active on regtest)
        const CTransaction& cb = *block->vtx[0];
        int commitpos = -1;
        for (size_t o = 0; o < cb.vout.size(); ++o) {
            const CScript& s = cb.vout[o].scriptPubKey;
            if (s.size() >= 38 && s[0] == OP_RETURN && s[1] == 0x24 && s[2] == 0xaa && s[3] == 0x21 && s[4] == 0xa9 && s[5] == 0xed) commitpos = (int)o;
        }
        if (commitpos >= 0) {
            const auto& stack = cb.vin[0].scriptWitness.stack;
            if (stack.size() != 1 || stack[0].size() != 32) return finish(Verdict::MUTATED, "witness-nonce-size");
            uint256 root = RefWitnessMerkleRoot(*block);
            uint256 commit;
            CHash256().Write(root).Write(stack[0]).Finalize(commit);
            if (memcmp(commit.begin(), &cb.vout[commitpos].scriptPubKey[6], 32) != 0) return finish(Verdict::MUTATED, "witness-commitment-mismatch");
        } else {
            for (auto& tx : block->vtx)
                if (tx->HasWitness()) return finish(Verdict::MUTATED, "unexpected-witness");
        }
    }
    for (auto& tx : block->vtx) {
        std::string r = ContextFree(*tx);
        if (!r.empty()) return finish(Verdict::INVALID, "tx:" + r);
    }
    if (!label.structure_ok) return finish(Verdict::INVALID, "structure:" + label.defect);
    if (b.height >= bip34_height) {
        CScript expect = CScript() << b.height;
        const CScript& ss = block->vtx[0]->vin[0].scriptSig;
        if (ss.size() < expect.size() || !std::equal(expect.begin(), expect.end(), ss.begin())) return finish(Verdict::INVALID, "bip34-height");
    }
    const int64_t cutoff = b.height >= csv_height ? MTP(parent) : b.time;
    for (auto& tx : block->vtx)
        if (!IsFinal(*tx, b.height, cutoff)) return finish(Verdict::INVALID, "non-final");
    RefUtxo view = *p.utxo;
    // BIP30: no transaction may overwrite an existing unspent output
    for (auto& tx : block->vtx)
        for (size_t o = 0; o < tx->vout.size(); ++o)
            if (view.count(COutPoint(tx->GetHash(), (uint32_t)o))) return finish(Verdict::INVALID, "bip30-overwrite");
    CAmount fees = 0;
    RefApplyTx(view, *block->vtx[0], b.height);
    for (size_t i = 1; i < block->vtx.size(); ++i) {
        CAmount fee = 0;
        std::string r = CheckTxContextual(*block->vtx[i], view, b.height, parent, fee);
        if (!r.empty()) return finish(Verdict::INVALID, "tx:" + r);
        fees += fee;
        if (fees < 0 || fees > MAX_MONEY) return finish(Verdict::INVALID, "fees-range");
        RefApplyTx(view, *block->vtx[i], b.height);
    }
    CAmount cb_out = 0;
    for (auto& o : block->vtx[0]->vout) cb_out += o.nValue;
    if (cb_out > fees + RefSubsidy(b.height, halving_interval)) return finish(Verdict::INVALID, "coinbase-overpays");
    if (!label.scripts_ok) return finish(Verdict::INVALID, "scripts:" + label.defect);
    b.fees = fees;
    b.utxo = std::make_shared<const RefUtxo>(std::move(view));
    return finish(Verdict::VALID, "");
}

} // namespace nodesim
