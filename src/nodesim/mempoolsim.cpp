#include "mempoolsim.h"

#include <consensus/validation.h>
#include <node/miner.h>
#include <policy/policy.h>
#include <policy/rbf.h>
#include <txmempool.h>
#include <util/time.h>

#include <algorithm>

using namespace sim;

namespace nodesim {

static const char* kShapeNames[TS_NSHAPES] = {"simple", "chain", "fan-in", "fan-out", "conflict(rbf)", "truc", "dusty-parent", "below-minfee", "non-standard", "invalid", "witness-variant"};
static const char* kPkgNames[PS_NSHAPES] = {"child-with-parents", "cpfp", "unsorted", "duplicate", "internal-conflict", "grandparent", "two-children", "too-many", "parent-in-mempool", "single", "conflicts-mempool"};
static const int64_t kFeeClass[8] = {0, 50, 100, 101, 1000, 5000, 20000, 200000}; // sat per 1000 vB

std::string DescribeMempoolOp(const Op& op)
{
    char b[220];
    switch (op.kind) {
    case MP_TX:
        snprintf(b, sizeof b, "submit_tx(shape=%s, seed=%ld, feerate=%ld sat/kvB, flags=%ld[1=test_accept,2=v3,4=then-submit], aim=%ld)", kShapeNames[op.mod(0, TS_NSHAPES)], (long)op.arg(1), (long)kFeeClass[op.mod(2, 8)], (long)op.arg(3), (long)op.arg(4));
        break;
    case MP_PKG: snprintf(b, sizeof b, "submit_package(shape=%s, seed=%ld, parents=%ld, child_feerate=%ld sat/kvB, test_accept=%ld)", kPkgNames[op.mod(0, PS_NSHAPES)], (long)op.arg(1), (long)op.arg(2), (long)kFeeClass[op.mod(3, 8)], (long)(op.arg(4) & 1)); break;
    case MP_PRIO: snprintf(b, sizeof b, "prioritisetransaction(tx#%ld, delta_sel=%ld)", (long)op.arg(0), (long)op.arg(1)); break;
    case MP_MINE: snprintf(b, sizeof b, "mine_from_mempool(include_pct=%ld, with_conflict=%ld, seed=%ld)", (long)op.arg(0), (long)op.arg(1), (long)op.arg(2)); break;
    case MP_REORG: snprintf(b, sizeof b, "reorg(depth=%ld, extra=%ld, ntx=%ld, seed=%ld)", (long)op.arg(0), (long)op.arg(1), (long)op.arg(2), (long)op.arg(3)); break;
    case MP_CLOCK: snprintf(b, sizeof b, "clock += %lds", (long)op.arg(0)); break;
    case MP_TEMPLATE: snprintf(b, sizeof b, "create_block_template(opts=%ld,%ld,%ld,%ld)", (long)op.arg(0), (long)op.arg(1), (long)op.arg(2), (long)op.arg(3)); break;
    case MP_RESUBMIT: snprintf(b, sizeof b, "resubmit(tx#%ld, test_accept=%ld)", (long)op.arg(0), (long)(op.arg(1) & 1)); break;
    case MP_TIPDOWN: snprintf(b, sizeof b, "invalidateblock(tip)"); break;
    default: return DescribeChainOp(op);
    }
    return b;
}

Plan GenMempoolPlan(uint64_t seed, Tier tier, const std::string& bias)
{
    Rng rng(seed);
    Plan p;
    p.knobs["base"] = rng.range(105, 125);
    p.knobs["on_disk"] = 0;
    p.knobs["coins_cache_kb"] = 8192;
    p.knobs["batch_bytes"] = 16 << 20;
    p.knobs["mempool_kb"] = rng.chance(1, 3) ? rng.range(40, 200) : 300000; // small: TrimToSize fires
    p.knobs["expiry_h"] = rng.chance(1, 2) ? rng.range(1, 48) : 336;
    p.knobs["cluster_count"] = rng.chance(1, 3) ? rng.range(3, 12) : 64;
    p.knobs["cluster_kvb"] = rng.chance(1, 4) ? rng.range(2, 20) : 101;
    std::vector<uint32_t> w(MP_NOPS_END - MP_TX, 0), sw(TS_NSHAPES, 5), pw(PS_NSHAPES, 3);
    auto W = [&](int op) -> uint32_t& { return w[op - MP_TX]; };
    W(MP_TX) = 50; W(MP_PKG) = 8; W(MP_PRIO) = 4; W(MP_MINE) = 6; W(MP_REORG) = 2; W(MP_CLOCK) = 3; W(MP_TEMPLATE) = 0; W(MP_RESUBMIT) = 3;
    sw[TS_SIMPLE] = 20; sw[TS_CHAIN] = 20; sw[TS_CONFLICT] = 10;
    int test_accept_pct = 5;
    if (bias == "c23") { W(MP_TEMPLATE) = 15; W(MP_MINE) = 4; sw[TS_FANOUT] = 10; p.knobs["mempool_kb"] = 300000; }
    else if (bias == "c26") { sw[TS_CONFLICT] = 45; sw[TS_CHAIN] = 25; sw[TS_FANOUT] = 10; W(MP_PRIO) = 8; pw[PS_CONFLICTS_MEMPOOL] = 12; W(MP_PKG) = 10; p.knobs["mempool_kb"] = 300000; p.knobs["cluster_count"] = 64; }
    else if (bias == "c27") { sw[TS_TRUC] = 30; sw[TS_DUSTY_PARENT] = 10; sw[TS_FANOUT] = 12; sw[TS_CHAIN] = 30; W(MP_REORG) = rng.chance(1, 4) ? 2 : 0; pw[PS_CPFP] = 12; p.knobs["mempool_kb"] = rng.chance(2, 3) ? rng.range(30, 120) : 300000; }
    else if (bias == "c28") { test_accept_pct = 50; sw[TS_INVALID] = 10; sw[TS_NONSTANDARD] = 10; p.knobs["mempool_kb"] = 300000; }
    else if (bias == "c29") { W(MP_PKG) = 45; W(MP_TX) = 25; }
    else if (bias == "c22") {
        W(MP_MINE) = 9; W(MP_REORG) = 5; W(MP_CLOCK) = 5; sw[TS_INVALID] = 6;
        // the tip going DOWN without a replacement (relative locks that were just satisfied stop being so), simple transactions whose
        // BIP68 height lock is satisfied exactly at tip+1, replacements that also spend what they evict
        W(MP_TIPDOWN) = 3;
        p.knobs["bip68_exact_pct"] = 20;
        p.knobs["conflict_spends_evicted_pct"] = 25;
    }
    // CTxMemPool refuses max_size_bytes below 40 x the cluster size limit: a small mempool needs a small cluster size limit
    if (p.knobs["mempool_kb"] < 300000) {
        p.knobs["cluster_kvb"] = rng.range(1, 3);
        p.knobs["mempool_kb"] = p.knobs["cluster_kvb"] * 40 + rng.range(5, 120);
    } else if (p.knobs["cluster_kvb"] * 40 > p.knobs["mempool_kb"]) {
        p.knobs["cluster_kvb"] = 101;
    }
    int nops = (int)rng.range(40, tier == Tier::THOROUGH ? 220 : 110);
    for (int i = 0; i < nops; ++i) {
        Op op;
        op.kind = MP_TX + (int)rng.pick(w);
        switch (op.kind) {
        case MP_TX: {
            int64_t flags = (rng.chance(test_accept_pct, 100) ? 1 : 0) | (rng.chance(1, 10) ? 2 : 0) | (rng.chance(1, 2) ? 4 : 0);
            op.a = {(int64_t)rng.pick(sw), (int64_t)(rng.next() >> 16), (int64_t)rng.pick({2, 2, 3, 4, 30, 20, 10, 3}), flags, (int64_t)rng.below(8)};
            break;
        }
        case MP_PKG: op.a = {(int64_t)rng.pick(pw), (int64_t)(rng.next() >> 16), (int64_t)rng.range(1, 4), (int64_t)rng.pick({1, 1, 1, 2, 20, 20, 10, 3}), (int64_t)(rng.chance(test_accept_pct, 100) ? 1 : 0), (int64_t)rng.pick({10, 5, 2, 2, 5})}; break;
        case MP_PRIO: op.a = {(int64_t)rng.below(1000), (int64_t)rng.below(6)}; break;
        case MP_MINE: op.a = {(int64_t)rng.range(0, 100), (int64_t)rng.below(2), (int64_t)(rng.next() >> 16)}; break;
        case MP_REORG: op.a = {(int64_t)rng.skewed(1, 3), (int64_t)rng.range(1, 2), (int64_t)rng.range(0, 2), (int64_t)(rng.next() >> 16)}; break;
        case MP_CLOCK: op.a = {(int64_t)(rng.chance(1, 3) ? rng.range(3600, 200000) : rng.skewed(1, 3600))}; break;
        case MP_TEMPLATE: op.a = {(int64_t)rng.below(8), (int64_t)rng.below(8), (int64_t)rng.below(8), (int64_t)rng.below(4)}; break;
        case MP_RESUBMIT: op.a = {(int64_t)rng.below(1000), (int64_t)(rng.chance(test_accept_pct, 100) ? 1 : 0)}; break;
        }
        p.ops.push_back(op);
    }
    return p;
}

// ---------------------------------------------------------------------------------------------

void MempoolSim::Setup()
{
    cs.tweak_opts = [&](NodeOpts& o) {
        o.mempool_check_ratio = 1;
        o.mempool_max_bytes = ctx.knob("mempool_kb", 300000) * 1000;
        o.mempool_expiry_s = ctx.knob("expiry_h", 336) * 3600;
        o.require_standard = true;
        kernel::MemPoolLimits lim;
        lim.cluster_count = (unsigned)ctx.knob("cluster_count", 64);
        lim.cluster_size_vbytes = ctx.knob("cluster_kvb", 101) * 1000;
        o.limits = lim;
    };
    cs.Setup();
}

CAmount MempoolSim::InputSum(const std::vector<Spendable>& ins) const
{
    CAmount s = 0;
    for (auto& i : ins) s += i.coin.value;
    return s;
}

std::vector<MempoolSim::Spendable> MempoolSim::FreeConfirmed()
{
    std::vector<Spendable> out;
    const Keyring& kr = Keys();
    int h = cs.ref->blocks[TipIdx()].height + 1;
    for (auto& [op, c] : TipUtxo()) {
        if (!kr.CanSpend(c.spk)) continue;
        if (c.coinbase && h - c.height < cs.ref->maturity) continue;
        if (pool().isSpent(op)) continue;
        out.push_back({op, c, true});
    }
    return out;
}

std::vector<MempoolSim::Spendable> MempoolSim::FreeUnconfirmed()
{
    std::vector<Spendable> out;
    const Keyring& kr = Keys();
    int h = cs.ref->blocks[TipIdx()].height + 1;
    std::vector<CTransactionRef> txs;
    for (auto& info : pool().infoAll()) txs.push_back(info.tx);
    std::sort(txs.begin(), txs.end(), [](auto& a, auto& b) { return a->GetHash() < b->GetHash(); });
    for (auto& tx : txs)
        for (size_t o = 0; o < tx->vout.size(); ++o) {
            COutPoint op(tx->GetHash(), (uint32_t)o);
            if (!kr.CanSpend(tx->vout[o].scriptPubKey) || pool().isSpent(op)) continue;
            out.push_back({op, RefCoin{tx->vout[o].nValue, tx->vout[o].scriptPubKey, h, false}, false});
        }
    return out;
}

CTransactionRef MempoolSim::MakeTx(const std::vector<Spendable>& ins, std::vector<CTxOut> outs, int64_t feerate_milli, CAmount fee_adjust, uint32_t version, uint32_t locktime,
                                   std::vector<uint32_t> sequences, SigDefect defect, int shape, bool meant_standard)
{
    std::vector<TxIn> tin;
    for (size_t i = 0; i < ins.size(); ++i) tin.push_back({ins[i].op, ins[i].coin, i < sequences.size() ? sequences[i] : 0xfffffffdu});
    bool ok = true;
    CTransactionRef tx;
    if (feerate_milli >= 0 && !outs.empty()) {
        CAmount in_sum = InputSum(ins), others = 0;
        for (size_t i = 0; i + 1 < outs.size(); ++i) others += outs[i].nValue;
        CAmount fee = 0;
        for (int iter = 0; iter < 4; ++iter) {
            outs.back().nValue = in_sum - others - fee;
            tx = BuildTx(tin, outs, locktime, version, defect, 0, ok);
            int64_t vsize = GetVirtualTransactionSize(*tx);
            CAmount want = (feerate_milli * vsize + 999) / 1000 + fee_adjust;
            if (want < 0) want = 0;
            if (want == fee) break;
            fee = want;
        }
    } else {
        tx = BuildTx(tin, outs, locktime, version, defect, 0, ok);
    }
    Txid id = tx->GetHash();
    if (!made.count(id)) made_order.push_back(id);
    made[id] = TxInfo{tx, ok, meant_standard, shape};
    return tx;
}

MempoolSnap MempoolSim::Snapshot()
{
    MempoolSnap s;
    LOCK(pool().cs);
    for (const auto& e : pool().entryAll()) {
        const CTxMemPoolEntry& en = e;
        s[en.GetTx().GetHash()] = SnapEntry{en.GetSharedTx(), en.GetFee(), en.GetModifiedFee(), en.GetTxSize(), en.GetTime().count()};
    }
    return s;
}

static std::vector<Txid> ReplacedIds(const std::list<CTransactionRef>& l)
{
    std::vector<Txid> v;
    for (auto& t : l) v.push_back(t->GetHash());
    std::sort(v.begin(), v.end());
    return v;
}

SubmitRecord MempoolSim::SubmitTx(const CTransactionRef& tx, bool test_accept, int shape)
{
    SubmitRecord r;
    r.test_accept = test_accept;
    r.txs = {tx};
    r.shape = shape;
    if (cfg.snapshots) {
        r.before = Snapshot();
        LOCK2(cs_main, pool().cs);
        // usage first: GetFeerateDiagram() relinearises clusters and thereby changes DynamicMemoryUsage()
        r.usage_before = pool().DynamicMemoryUsage();
        r.minfee_before = pool().GetMinFee();
        r.diagram_before = pool().GetFeerateDiagram();
    }
    {
        LOCK(cs_main);
        const MempoolAcceptResult res = node().cm().ProcessTransaction(tx, test_accept);
        r.result_type = res.m_result_type;
        r.tx_result = res.m_state.GetResult();
        r.reject_reason = res.m_state.GetRejectReason();
        r.replaced = ReplacedIds(res.m_replaced_transactions);
        r.vsize = res.m_vsize;
        r.base_fees = res.m_base_fees;
    }
    node().DrainSignals();
    if (cfg.snapshots) {
        // memory usage is the very first read: Snapshot() (entryAll -> CompareMainOrder) and GetFeerateDiagram() both
        // relinearise clusters, which changes DynamicMemoryUsage() by a few hundred bytes
        {
            LOCK2(cs_main, pool().cs);
            r.usage_after = pool().DynamicMemoryUsage();
            r.minfee_after = pool().GetMinFee();
        }
        r.after = Snapshot();
        LOCK2(cs_main, pool().cs);
        r.diagram_after = pool().GetFeerateDiagram();
    }
    const char* rt = r.result_type == MempoolAcceptResult::ResultType::VALID ? "VALID" : r.result_type == MempoolAcceptResult::ResultType::INVALID ? "INVALID" : r.result_type == MempoolAcceptResult::ResultType::MEMPOOL_ENTRY ? "MEMPOOL_ENTRY" : "DIFFERENT_WITNESS";
    ctx.evf("submit %s shape=%s test=%d -> %s %s replaced=%zu pool=%lu", tx->GetHash().ToString().substr(0, 10).c_str(), kShapeNames[shape % TS_NSHAPES], test_accept, rt, r.reject_reason.c_str(), r.replaced.size(), pool().size());
    if (r.result_type == MempoolAcceptResult::ResultType::VALID) {
        ctx.probe(test_accept ? "test_accept_ok" : "tx_accepted");
        if (!r.replaced.empty()) ctx.probe("replacement_accepted");
        ctx.nontrivial = true;
    } else if (r.result_type == MempoolAcceptResult::ResultType::INVALID) {
        ctx.probe("tx_rejected");
    }
    if (after_submit) after_submit(r);
    return r;
}

SubmitRecord MempoolSim::SubmitPackage(const std::vector<CTransactionRef>& txs, bool test_accept, int shape)
{
    SubmitRecord r;
    r.is_package = true;
    r.test_accept = test_accept;
    r.txs = txs;
    r.shape = shape;
    if (cfg.snapshots) {
        r.before = Snapshot();
        LOCK2(cs_main, pool().cs);
        // usage first: GetFeerateDiagram() relinearises clusters and thereby changes DynamicMemoryUsage()
        r.usage_before = pool().DynamicMemoryUsage();
        r.minfee_before = pool().GetMinFee();
        r.diagram_before = pool().GetFeerateDiagram();
    }
    {
        LOCK(cs_main);
        const PackageMempoolAcceptResult res = ProcessNewPackage(node().cs(), pool(), txs, test_accept, /*client_maxfeerate=*/{});
        r.pkg_result = res.m_state.GetResult();
        r.pkg_reason = res.m_state.GetRejectReason();
        for (auto& [w, tr] : res.m_tx_results) {
            r.pkg_tx_results.emplace(w, std::make_pair(tr.m_result_type, tr.m_state.GetRejectReason()));
            for (auto& t : tr.m_replaced_transactions) r.replaced.push_back(t->GetHash());
        }
        std::sort(r.replaced.begin(), r.replaced.end());
    }
    node().DrainSignals();
    if (cfg.snapshots) {
        // memory usage is the very first read: Snapshot() (entryAll -> CompareMainOrder) and GetFeerateDiagram() both
        // relinearise clusters, which changes DynamicMemoryUsage() by a few hundred bytes
        {
            LOCK2(cs_main, pool().cs);
            r.usage_after = pool().DynamicMemoryUsage();
            r.minfee_after = pool().GetMinFee();
        }
        r.after = Snapshot();
        LOCK2(cs_main, pool().cs);
        r.diagram_after = pool().GetFeerateDiagram();
    }
    size_t nvalid = 0;
    for (auto& [w, tr] : r.pkg_tx_results)
        if (tr.first == MempoolAcceptResult::ResultType::VALID) ++nvalid;
    ctx.evf("package n=%zu shape=%s test=%d -> state=%d %s results=%zu valid=%zu pool=%lu", txs.size(), kPkgNames[shape % PS_NSHAPES], test_accept, (int)r.pkg_result, r.pkg_reason.c_str(), r.pkg_tx_results.size(), nvalid, pool().size());
    if (nvalid) { ctx.probe("package_tx_accepted", nvalid); ctx.nontrivial = true; }
    if (r.pkg_result != PackageValidationResult::PCKG_RESULT_UNSET) ctx.probe("package_rejected");
    if (after_submit) after_submit(r);
    return r;
}

// ---------------------------------------------------------------------------------------------
// C22 oracle

void MempoolSim::CheckConsistency(const char* where)
{
    struct E { CTransactionRef tx; CAmount fee, mod; int64_t vsize; std::set<Txid> parents_node, children_node; size_t anc_node{0}, desc_node{0}, cluster_node{0}; size_t anc_size_node{0}; CAmount anc_fees_node{0}; };
    std::map<Txid, E> es;
    uint64_t total_size_node, n_node;
    CAmount total_fee_node;
    {
        LOCK2(cs_main, pool().cs);
        for (const auto& er : pool().entryAll()) {
            const CTxMemPoolEntry& e = er;
            E x;
            x.tx = e.GetSharedTx();
            x.fee = e.GetFee();
            x.mod = e.GetModifiedFee();
            x.vsize = e.GetTxSize();
            for (const auto& p : pool().GetParents(e)) x.parents_node.insert(p.get().GetTx().GetHash());
            for (const auto& c : pool().GetChildren(e)) x.children_node.insert(c.get().GetTx().GetHash());
            x.anc_node = pool().GetAncestorCount(e);
            x.desc_node = pool().GetDescendantCount(e);
            size_t anc = 0, clus = 0, ancsize = 0;
            CAmount ancfees = 0;
            pool().GetTransactionAncestry(e.GetTx().GetHash(), anc, clus, &ancsize, &ancfees);
            x.cluster_node = clus;
            x.anc_size_node = ancsize;
            x.anc_fees_node = ancfees;
            es.emplace(e.GetTx().GetHash(), std::move(x));
        }
        total_size_node = pool().GetTotalTxSize();
        total_fee_node = pool().GetTotalFee();
        n_node = pool().size();
    }
    const int tip = TipIdx();
    if (tip < 0) return;
    const RefUtxo& utxo = TipUtxo();
    const int next_h = cs.ref->blocks[tip].height + 1;
    const int64_t mtp = cs.ref->MTP(tip);
    if (n_node != es.size()) ctx.failf("mempool-size-mismatch", "%s: size()=%lu but %zu entries", where, (unsigned long)n_node, es.size());
    // inputs, double spends, fees
    std::map<COutPoint, Txid> spent_by;
    RefUtxo view = utxo;
    for (auto& [id, e] : es)
        for (size_t o = 0; o < e.tx->vout.size(); ++o)
            if (!RefUnspendable(e.tx->vout[o].scriptPubKey)) view[COutPoint(id, (uint32_t)o)] = RefCoin{e.tx->vout[o].nValue, e.tx->vout[o].scriptPubKey, next_h, false};
    uint64_t total_size = 0;
    CAmount total_fee = 0;
    std::map<Txid, std::set<Txid>> parents, children;
    for (auto& [id, e] : es) {
        CAmount in = 0, out = 0;
        for (auto& vin : e.tx->vin) {
            auto [it, fresh] = spent_by.emplace(vin.prevout, id);
            if (!fresh) ctx.failf("mempool-double-spend", "%s: outpoint %s:%u is spent by two mempool transactions", where, vin.prevout.hash.ToString().substr(0, 10).c_str(), vin.prevout.n);
            auto c = view.find(vin.prevout);
            if (c == view.end()) {
                if (es.count(vin.prevout.hash)) ctx.failf("mempool-spends-nonexistent-output", "%s: tx %s spends output %u of mempool tx %s which has no such spendable output", where, id.ToString().substr(0, 10).c_str(), vin.prevout.n, vin.prevout.hash.ToString().substr(0, 10).c_str());
                ctx.failf("mempool-input-not-in-utxo", "%s: tx %s spends %s:%u which is neither unspent in the UTXO set of the tip nor created by a mempool transaction", where, id.ToString().substr(0, 10).c_str(), vin.prevout.hash.ToString().substr(0, 10).c_str(), vin.prevout.n);
            }
            if (c->second.coinbase && next_h - c->second.height < cs.ref->maturity) ctx.failf("mempool-immature-coinbase-spend", "%s: tx %s spends a coinbase output of height %d at next height %d", where, id.ToString().substr(0, 10).c_str(), c->second.height, next_h);
            in += c->second.value;
            if (es.count(vin.prevout.hash)) { parents[id].insert(vin.prevout.hash); children[vin.prevout.hash].insert(id); }
        }
        for (auto& o : e.tx->vout) out += o.nValue;
        if (in < out) ctx.failf("mempool-tx-creates-value", "%s: tx %s spends %ld and creates %ld", where, id.ToString().substr(0, 10).c_str(), (long)in, (long)out);
        if (in - out != e.fee) ctx.failf("mempool-fee-mismatch", "%s: entry fee %ld != inputs-outputs %ld for %s", where, (long)e.fee, (long)(in - out), id.ToString().substr(0, 10).c_str());
        total_size += e.vsize;
        total_fee += e.fee;
        if (!cs.ref->IsFinal(*e.tx, next_h, mtp)) ctx.failf("mempool-nonfinal-tx", "%s: tx %s is not final for height %d / MTP %ld", where, id.ToString().substr(0, 10).c_str(), next_h, (long)mtp);
        if (!cs.ref->SequenceLocksOk(*e.tx, view, next_h, tip)) ctx.failf("mempool-bip68-unsatisfied", "%s: tx %s has unsatisfied relative locks for the next block", where, id.ToString().substr(0, 10).c_str());
        auto m = made.find(id);
        if (m != made.end() && !m->second.scripts_ok) ctx.failf("mempool-script-invalid-tx", "%s: tx %s was built with an invalid script/signature (shape %s) but is in the mempool", where, id.ToString().substr(0, 10).c_str(), kShapeNames[m->second.shape % TS_NSHAPES]);
    }
    if (total_size != total_size_node) ctx.failf("mempool-total-size-mismatch", "%s: GetTotalTxSize %lu != sum %lu", where, (unsigned long)total_size_node, (unsigned long)total_size);
    if (total_fee != total_fee_node) ctx.failf("mempool-total-fee-mismatch", "%s: GetTotalFee %ld != sum %ld", where, (long)total_fee_node, (long)total_fee);
    // links, ancestor/descendant/cluster statistics against naive closures
    auto closure = [&](const Txid& start, std::map<Txid, std::set<Txid>>& rel) {
        std::set<Txid> seen{start};
        std::vector<Txid> st{start};
        while (!st.empty()) {
            Txid x = st.back();
            st.pop_back();
            for (auto& y : rel[x])
                if (seen.insert(y).second) st.push_back(y);
        }
        return seen;
    };
    for (auto& [id, e] : es) {
        if (e.parents_node != parents[id]) ctx.failf("mempool-parent-links-wrong", "%s: tx %s has %zu parents per the mempool, %zu by its inputs", where, id.ToString().substr(0, 10).c_str(), e.parents_node.size(), parents[id].size());
        if (e.children_node != children[id]) ctx.failf("mempool-child-links-wrong", "%s: tx %s has %zu children per the mempool, %zu by the other entries' inputs", where, id.ToString().substr(0, 10).c_str(), e.children_node.size(), children[id].size());
        auto anc = closure(id, parents);
        auto desc = closure(id, children);
        if (e.anc_node != anc.size()) ctx.failf("mempool-ancestor-count-wrong", "%s: tx %s ancestor count %zu, naive %zu", where, id.ToString().substr(0, 10).c_str(), e.anc_node, anc.size());
        if (e.desc_node != desc.size()) ctx.failf("mempool-descendant-count-wrong", "%s: tx %s descendant count %zu, naive %zu", where, id.ToString().substr(0, 10).c_str(), e.desc_node, desc.size());
        size_t asz = 0;
        CAmount afee = 0;
        for (auto& a : anc) { asz += es[a].vsize; afee += es[a].mod; }
        if (e.anc_size_node != asz || e.anc_fees_node != afee) ctx.failf("mempool-ancestor-totals-wrong", "%s: tx %s ancestor size/fees %zu/%ld, naive %zu/%ld", where, id.ToString().substr(0, 10).c_str(), e.anc_size_node, (long)e.anc_fees_node, asz, (long)afee);
        // cluster = connected component
        std::set<Txid> comp{id};
        std::vector<Txid> st{id};
        while (!st.empty()) {
            Txid x = st.back();
            st.pop_back();
            for (auto* rel : {&parents, &children})
                for (auto& y : (*rel)[x])
                    if (comp.insert(y).second) st.push_back(y);
        }
        if (e.cluster_node != comp.size()) ctx.failf("mempool-cluster-count-wrong", "%s: tx %s cluster count %zu, naive %zu", where, id.ToString().substr(0, 10).c_str(), e.cluster_node, comp.size());
    }
    // second oracle, using the node's own consensus code: all entries in a topological order form a valid next block
    if (!es.empty()) {
        std::vector<Txid> order;
        std::set<Txid> placed;
        while (order.size() < es.size()) {
            size_t before = order.size();
            for (auto& [id, e] : es) {
                if (placed.count(id)) continue;
                bool ready = true;
                for (auto& p : parents[id])
                    if (!placed.count(p)) ready = false;
                if (ready) { order.push_back(id); placed.insert(id); }
            }
            if (order.size() == before) ctx.failf("mempool-dependency-cycle", "%s: entries cannot be topologically ordered", where);
        }
        std::vector<CTransactionRef> txs;
        int64_t weight = 4000;
        for (auto& id : order) {
            int64_t w = GetTransactionWeight(*es[id].tx);
            if (weight + w > 3'900'000) break;
            weight += w;
            txs.push_back(es[id].tx);
        }
        BlockExtras ex;
        ex.cb_extranonce = 0xfeed;
        const RefBlock& T = cs.ref->blocks[tip];
        auto block = BuildBlock(T.hash, next_h, std::max<int64_t>(mtp + 1, cs.now), txs, RefSubsidy(next_h, cs.ref->halving_interval), ex, node().params->GetConsensus());
        LOCK(cs_main);
        BlockValidationState st = TestBlockValidity(node().cs(), *block, /*check_pow=*/false, /*check_merkle_root=*/true);
        if (!st.IsValid()) ctx.failf("mempool-not-valid-as-next-block", "%s: a block made of the %zu mempool transactions in topological order fails TestBlockValidity: %s", where, txs.size(), st.ToString().c_str());
        ctx.probe("mempool_block_validated");
    }
    uint64_t fp = 0;
    for (auto& [id, e] : es) fp = mix64(fp, id.ToUint256().GetUint64(0));
    ctx.fingerprint(mix64(fp, (uint64_t)tip));
}

// ---------------------------------------------------------------------------------------------

void MempoolSim::ExecOp(const Op& op)
{
    const Keyring& kr = Keys();
    auto std_out = [&](Rng& r, CAmount v) {
        static const SK kinds[] = {SK::P2WPKH, SK::P2TR, SK::TRUE_WSH, SK::P2PKH, SK::P2SH_P2WPKH};
        return CTxOut(v, kr.Spk(kinds[r.below(5)], (int)r.below(N_KEYS)));
    };
    auto split_outs = [&](Rng& r, CAmount total, int n) {
        std::vector<CTxOut> outs;
        for (int i = 0; i < n; ++i) {
            CAmount v = i + 1 == n ? total : std::max<CAmount>(10000, (CAmount)r.below((uint64_t)std::max<CAmount>(total / 2, 1)));
            if (v > total) v = total;
            total -= v;
            outs.push_back(std_out(r, v));
        }
        return outs;
    };
    auto take = [&](std::vector<Spendable>& v, Rng& r) { size_t i = r.below(v.size()); Spendable s = v[i]; v.erase(v.begin() + i); return s; };
    const int tip = TipIdx();
    const int next_h = cs.ref->blocks[tip].height + 1;
    switch (op.kind) {
    case MP_TX: {
        Rng r(mix64((uint64_t)op.arg(1), 0x7478));
        int shape = (int)op.mod(0, TS_NSHAPES);
        int64_t feerate = kFeeClass[op.mod(2, 8)];
        bool test_accept = op.arg(3) & 1;
        uint32_t version = (op.arg(3) & 2) ? 3 : 2;
        bool then_submit = op.arg(3) & 4;
        std::vector<Spendable> conf = FreeConfirmed(), unconf = FreeUnconfirmed();
        // prefer standard-spendable confirmed coins for ordinary shapes
        std::vector<Spendable> conf_std;
        for (auto& s : conf)
            if (kr.Classify(s.coin.spk).kind != SK::TRUE_BARE) conf_std.push_back(s);
        CTransactionRef tx;
        switch (shape) {
        case TS_SIMPLE: {
            if (conf_std.empty()) break;
            std::vector<Spendable> ins{take(conf_std, r)};
            if (!conf_std.empty() && r.chance(1, 3)) ins.push_back(take(conf_std, r));
            std::vector<uint32_t> seqs;
            if (const int64_t pct = ctx.knob("bip68_exact_pct", 0); pct > 0 && r.chance((uint32_t)pct, 100) && next_h - ins[0].coin.height <= 0xffff && next_h > ins[0].coin.height) {
                // relative height lock satisfied exactly for the next block: valid now, not any more if the tip goes down by one
                seqs.push_back((uint32_t)(next_h - ins[0].coin.height));
                ctx.probe("bip68_exact_tx_built");
            }
            tx = MakeTx(ins, split_outs(r, InputSum(ins), (int)r.range(1, 3)), feerate, 0, version, 0, seqs, SigDefect::NONE, shape);
            break;
        }
        case TS_CHAIN: {
            if (unconf.empty()) { if (conf_std.empty()) break; unconf.push_back(take(conf_std, r)); }
            std::vector<Spendable> ins{take(unconf, r)};
            if (!conf_std.empty() && r.chance(1, 4)) ins.push_back(take(conf_std, r));
            if (made.count(ins[0].op.hash) && made[ins[0].op.hash].tx->version == 3) version = 3;
            tx = MakeTx(ins, split_outs(r, InputSum(ins), (int)r.range(1, 2)), feerate, 0, version, 0, {}, SigDefect::NONE, shape);
            ctx.probe("chained_tx_built");
            break;
        }
        case TS_FANIN: {
            std::vector<Spendable> ins;
            int n = (int)r.range(2, 5);
            for (int i = 0; i < n; ++i) {
                if (!unconf.empty() && r.chance(1, 2)) ins.push_back(take(unconf, r));
                else if (!conf_std.empty()) ins.push_back(take(conf_std, r));
            }
            if (ins.empty()) break;
            tx = MakeTx(ins, split_outs(r, InputSum(ins), 1), feerate, 0, 2, 0, {}, SigDefect::NONE, shape);
            break;
        }
        case TS_FANOUT: {
            if (conf_std.empty()) break;
            std::vector<Spendable> ins{take(conf_std, r)};
            tx = MakeTx(ins, split_outs(r, InputSum(ins), (int)r.range(4, 10)), feerate, 0, version, 0, {}, SigDefect::NONE, shape);
            break;
        }
        case TS_CONFLICT: {
            // double-spend one input of a mempool transaction, fee aimed at the replacement threshold
            std::vector<CTransactionRef> ptxs;
            for (auto& info : pool().infoAll()) ptxs.push_back(info.tx);
            if (ptxs.empty()) break;
            std::sort(ptxs.begin(), ptxs.end(), [](auto& a, auto& b) { return a->GetHash() < b->GetHash(); });
            CTransactionRef victim = ptxs[r.below(ptxs.size())];
            const CTxIn& vin = victim->vin[r.below(victim->vin.size())];
            std::optional<RefCoin> coin;
            if (auto it = TipUtxo().find(vin.prevout); it != TipUtxo().end()) coin = it->second;
            else if (auto ptx = pool().get(vin.prevout.hash); ptx && vin.prevout.n < ptx->vout.size()) coin = RefCoin{ptx->vout[vin.prevout.n].nValue, ptx->vout[vin.prevout.n].scriptPubKey, next_h, false};
            if (!coin || !kr.CanSpend(coin->spk)) break;
            std::vector<Spendable> ins{{vin.prevout, *coin, true}};
            bool spends_evicted = false;
            if (const int64_t pct = ctx.knob("conflict_spends_evicted_pct", 0); pct > 0 && r.chance((uint32_t)pct, 100)) {
                // ... and also spend a free output of the victim or of one of its descendants: must be refused (it would spend what it evicts)
                std::set<Txid> fam;
                {
                    LOCK(pool().cs);
                    CTxMemPool::setEntries all;
                    if (auto it = pool().GetIter(victim->GetHash())) pool().CalculateDescendants(*it, all);
                    for (auto it : all) fam.insert(it->GetTx().GetHash());
                }
                std::vector<Spendable> fam_outs;
                for (auto& u : unconf)
                    if (fam.count(u.op.hash)) fam_outs.push_back(u);
                if (!fam_outs.empty()) { ins.push_back(fam_outs[r.below(fam_outs.size())]); spends_evicted = true; ctx.probe("replacement_spending_evicted_output_built"); }
            }
            if (!spends_evicted && !conf_std.empty() && r.chance(2, 3)) ins.push_back(take(conf_std, r));
            // threshold: modified fees of everything evicted + incremental relay fee for the replacement's own size
            CAmount evicted_fees = 0;
            {
                LOCK(pool().cs);
                CTxMemPool::setEntries all;
                for (auto& i : ins)
                    if (const CTransaction* c = pool().GetConflictTx(i.op))
                        if (auto it = pool().GetIter(c->GetHash())) pool().CalculateDescendants(*it, all);
                for (auto it : all) evicted_fees += it->GetModifiedFee();
            }
            static const CAmount deltas[8] = {-1, 0, 1, 1, 500, 5000, 100000, -1000};
            CAmount delta = deltas[op.mod(4, 8)];
            tx = MakeTx(ins, split_outs(r, InputSum(ins), (int)r.range(1, 2)), /*feerate=incremental*/ 100, evicted_fees + delta, version, 0, {}, SigDefect::NONE, shape);
            ctx.probe(delta < 0 ? "rbf_attempt_below_threshold" : delta == 0 ? "rbf_attempt_at_threshold" : "rbf_attempt_above_threshold");
            break;
        }
        case TS_TRUC: {
            std::vector<Spendable> ins;
            int mode = (int)op.mod(4, 4);
            if ((mode == 0 || unconf.empty()) && !conf_std.empty()) ins.push_back(take(conf_std, r)); // TRUC parent
            else if (!unconf.empty()) ins.push_back(take(unconf, r));                                 // TRUC child of whatever is there (maybe non-TRUC: must be refused)
            if (ins.empty()) break;
            if (mode == 3 && !unconf.empty()) ins.push_back(take(unconf, r)); // two unconfirmed parents
            int nout = mode == 2 ? (int)r.range(20, 40) : (int)r.range(1, 2);  // mode 2: oversized child (> 1000 vB)
            tx = MakeTx(ins, split_outs(r, InputSum(ins), nout), feerate, 0, 3, 0, {}, SigDefect::NONE, shape);
            ctx.probe("truc_tx_built");
            break;
        }
        case TS_DUSTY_PARENT: {
            if (conf_std.empty()) break;
            std::vector<Spendable> ins{take(conf_std, r)};
            int mode = (int)op.mod(4, 3);
            std::vector<CTxOut> outs;
            outs.push_back(CTxOut((CAmount)r.below(200), kr.Spk(SK::P2WPKH, (int)r.below(N_KEYS)))); // dust
            if (mode == 2) outs.push_back(CTxOut((CAmount)r.below(200), kr.Spk(SK::P2TR, 0)));        // two dust outputs
            outs.push_back(std_out(r, 0));
            tx = MakeTx(ins, outs, mode == 1 ? feerate : 0, 0, 3, 0, {}, SigDefect::NONE, shape); // mode 0: zero fee (only acceptable in a package)
            ctx.probe("dusty_tx_built");
            break;
        }
        case TS_BELOW_MINFEE: {
            if (conf_std.empty()) break;
            std::vector<Spendable> ins{take(conf_std, r)};
            tx = MakeTx(ins, split_outs(r, InputSum(ins), 1), kFeeClass[op.mod(4, 2)], 0, version, 0, {}, SigDefect::NONE, shape);
            break;
        }
        case TS_NONSTANDARD: {
            int mode = (int)op.mod(4, 4);
            std::vector<Spendable> bare;
            for (auto& s : conf)
                if (kr.Classify(s.coin.spk).kind == SK::TRUE_BARE) bare.push_back(s);
            if (mode == 0 && !bare.empty()) {
                std::vector<Spendable> ins{take(bare, r)};
                tx = MakeTx(ins, split_outs(r, InputSum(ins), 1), feerate, 0, 2, 0, {}, SigDefect::NONE, shape, false);
            } else if (!conf_std.empty()) {
                std::vector<Spendable> ins{take(conf_std, r)};
                std::vector<CTxOut> outs;
                if (mode == 1) outs.push_back(CTxOut(20000, kr.Spk(SK::TRUE_BARE, 1)));                               // non-standard scriptPubKey
                else if (mode == 2) outs.push_back(CTxOut(0, CScript() << OP_RETURN << std::vector<unsigned char>(200000, 7))); // oversize tx/datacarrier
                outs.push_back(std_out(r, 0));
                tx = MakeTx(ins, outs, feerate, 0, mode == 3 ? 4 : 2, 0, {}, SigDefect::NONE, shape, false);
            }
            break;
        }
        case TS_INVALID: {
            int mode = (int)op.mod(4, 6);
            if (mode == 1) {
                // premature coinbase spend
                std::vector<Spendable> imm;
                for (auto& [o, c] : TipUtxo())
                    if (c.coinbase && next_h - c.height < cs.ref->maturity && kr.CanSpend(c.spk) && kr.Classify(c.spk).kind != SK::TRUE_BARE) imm.push_back({o, c, true});
                if (imm.empty()) break;
                std::vector<Spendable> ins{take(imm, r)};
                tx = MakeTx(ins, split_outs(r, InputSum(ins), 1), feerate, 0, 2, 0, {}, SigDefect::NONE, shape);
                break;
            }
            if (conf_std.empty()) break;
            std::vector<Spendable> ins{take(conf_std, r)};
            if (mode == 0) tx = MakeTx(ins, split_outs(r, InputSum(ins), 1), feerate, 0, 2, 0, {}, kr.Classify(ins[0].coin.spk).kind == SK::TRUE_WSH ? SigDefect::WRONG_KEY : SigDefect::BAD_SIG, shape);
            else if (mode == 2) tx = MakeTx(ins, split_outs(r, InputSum(ins), 1), feerate, 0, 2, (uint32_t)next_h, {0xfffffffe}, SigDefect::NONE, shape);                // non-final (height)
            else if (mode == 3) tx = MakeTx(ins, split_outs(r, InputSum(ins), 1), feerate, 0, 2, 0, {(uint32_t)(next_h - ins[0].coin.height + 1)}, SigDefect::NONE, shape); // BIP68 one short
            else if (mode == 4) {
                ins[0].op = COutPoint(Txid::FromUint256(uint256{(uint8_t)(1 + r.below(200))}), 0); // missing input
                tx = MakeTx(ins, split_outs(r, InputSum(ins), 1), feerate, 0, 2, 0, {}, SigDefect::NONE, shape);
            } else tx = MakeTx(ins, {std_out(r, InputSum(ins) + 1)}, -1, 0, 2, 0, {}, SigDefect::NONE, shape); // creates value
            break;
        }
        case TS_WITNESS_VARIANT: {
            // same txid as a mempool transaction, witness stripped
            std::vector<CTransactionRef> ptxs;
            for (auto& info : pool().infoAll())
                if (info.tx->HasWitness()) ptxs.push_back(info.tx);
            if (ptxs.empty()) break;
            std::sort(ptxs.begin(), ptxs.end(), [](auto& a, auto& b) { return a->GetHash() < b->GetHash(); });
            CMutableTransaction m(*ptxs[r.below(ptxs.size())]);
            for (auto& in : m.vin) in.scriptWitness.SetNull();
            tx = MakeTransactionRef(m);
            ctx.probe("witness_stripped_variant");
            // not registered in `made` under a new txid: same txid as the genuine one; the label of the genuine one stays
            break;
        }
        }
        if (!tx) { ctx.evf("submit shape=%s: nothing to build", kShapeNames[shape]); break; }
        SubmitRecord rec = SubmitTx(tx, test_accept, shape);
        if (test_accept && then_submit) SubmitTx(tx, false, shape);
        break;
    }
    case MP_RESUBMIT: {
        if (made_order.empty()) break;
        const TxInfo& ti = made[made_order[op.mod(0, made_order.size())]];
        SubmitTx(ti.tx, op.arg(1) & 1, ti.shape);
        ctx.probe("resubmit");
        break;
    }
    case MP_PKG: {
        Rng r(mix64((uint64_t)op.arg(1), 0x706b67));
        int shape = (int)op.mod(0, PS_NSHAPES);
        bool test_accept = op.arg(4) & 1;
        std::vector<Spendable> conf = FreeConfirmed();
        std::vector<Spendable> conf_std;
        for (auto& s : conf)
            if (kr.Classify(s.coin.spk).kind != SK::TRUE_BARE) conf_std.push_back(s);
        int nparents = (int)std::clamp<int64_t>(op.arg(2), 1, 24);
        if (shape == PS_TOO_MANY) nparents = 25;
        if (shape == PS_SINGLE) nparents = 0;
        if ((int)conf_std.size() < nparents + 1) break;
        int64_t child_rate = kFeeClass[op.mod(3, 8)];
        int64_t parent_rate = shape == PS_CPFP ? 0 : kFeeClass[op.mod(5, 5)];
        uint32_t version = shape == PS_CPFP && r.chance(1, 2) ? 3 : 2;
        std::vector<CTransactionRef> parents_tx;
        std::vector<Spendable> child_ins;
        bool dusty = shape == PS_CPFP && version == 3 && r.chance(1, 2);
        for (int i = 0; i < nparents; ++i) {
            std::vector<Spendable> ins{take(conf_std, r)};
            if (shape == PS_CONFLICTS_MEMPOOL && i == 0) {
                // first parent double-spends a mempool transaction's confirmed input
                for (auto& info : pool().infoAll()) {
                    auto it = TipUtxo().find(info.tx->vin[0].prevout);
                    if (it != TipUtxo().end() && kr.CanSpend(it->second.spk)) { ins = {{info.tx->vin[0].prevout, it->second, true}, ins[0]}; break; }
                }
            }
            std::vector<CTxOut> outs;
            if (dusty && i == 0) outs.push_back(CTxOut((CAmount)r.below(200), kr.Spk(SK::P2WPKH, 1)));
            outs.push_back(std_out(r, 0));
            CTransactionRef p = MakeTx(ins, outs, parent_rate, 0, version, 0, {}, SigDefect::NONE, TS_SIMPLE);
            parents_tx.push_back(p);
            int h = next_h;
            for (size_t o = 0; o < p->vout.size(); ++o)
                if (!(shape == PS_CPFP && dusty && !r.chance(3, 4) && p->vout[o].nValue < 300)) child_ins.push_back({COutPoint(p->GetHash(), (uint32_t)o), RefCoin{p->vout[o].nValue, p->vout[o].scriptPubKey, h, false}, false});
            if (version == 3) break; // TRUC: one parent only
        }
        if (shape == PS_SINGLE || child_ins.empty()) child_ins.push_back(take(conf_std, r));
        std::vector<CTransactionRef> pkg = parents_tx;
        CTransactionRef child = MakeTx(child_ins, split_outs(r, InputSum(child_ins), 1), child_rate, 0, version, 0, {}, SigDefect::NONE, TS_CHAIN);
        pkg.push_back(child);
        switch (shape) {
        case PS_UNSORTED: if (pkg.size() > 1) std::swap(pkg.front(), pkg.back()); break;
        case PS_DUPLICATE: pkg.insert(pkg.begin(), pkg.front()); break;
        case PS_INTERNAL_CONFLICT: {
            // a second transaction spending the same confirmed coin as parent 0
            if (parents_tx.empty()) break;
            auto it = TipUtxo().find(parents_tx[0]->vin[0].prevout);
            if (it == TipUtxo().end()) break;
            pkg.insert(pkg.begin() + 1, MakeTx({{parents_tx[0]->vin[0].prevout, it->second, true}}, {std_out(r, 0)}, 2000, 0, 2, 0, {}, SigDefect::NONE, TS_SIMPLE));
            break;
        }
        case PS_GRANDPARENT: {
            // child -> grandchild: [parents..., child, grandchild] is not child-with-parents
            std::vector<Spendable> gin{{COutPoint(child->GetHash(), 0), RefCoin{child->vout[0].nValue, child->vout[0].scriptPubKey, next_h, false}, false}};
            pkg.push_back(MakeTx(gin, {std_out(r, 0)}, child_rate, 0, version, 0, {}, SigDefect::NONE, TS_CHAIN));
            break;
        }
        case PS_TWO_CHILDREN: {
            if (parents_tx.empty() || parents_tx[0]->vout.size() < 1) break;
            std::vector<Spendable> extra{take(conf_std, r)};
            pkg.push_back(MakeTx(extra, {std_out(r, 0)}, child_rate, 0, 2, 0, {}, SigDefect::NONE, TS_SIMPLE));
            break;
        }
        case PS_PARENT_IN_MEMPOOL:
            if (!parents_tx.empty()) SubmitTx(parents_tx[0], false, TS_SIMPLE);
            break;
        default: break;
        }
        SubmitPackage(pkg, test_accept, shape);
        break;
    }
    case MP_PRIO: {
        if (made_order.empty()) break;
        const Txid id = made_order[op.mod(0, made_order.size())];
        static const CAmount deltas[6] = {-100000, -1000, 1000, 50000, 1000000, -1};
        CAmount d = deltas[op.mod(1, 6)];
        pool().PrioritiseTransaction(id, d);
        ctx.probe(pool().exists(id) ? "prioritised_in_mempool" : "prioritised_absent");
        ctx.evf("prioritise %s %+ld", id.ToString().substr(0, 10).c_str(), (long)d);
        break;
    }
    case MP_MINE: {
        Rng r(mix64((uint64_t)op.arg(2), 0x6d696e));
        // candidate order: parents before children
        std::vector<std::pair<size_t, CTransactionRef>> cand;
        {
            LOCK(pool().cs);
            for (const auto& er : pool().entryAll()) {
                const CTxMemPoolEntry& e = er;
                cand.emplace_back(pool().GetAncestorCount(e), e.GetSharedTx());
            }
        }
        std::sort(cand.begin(), cand.end(), [](auto& a, auto& b) { return a.first != b.first ? a.first < b.first : a.second->GetHash() < b.second->GetHash(); });
        std::set<Txid> included;
        std::vector<CTransactionRef> txs;
        RefUtxo view = TipUtxo();
        CAmount fees = 0;
        bool scripts_ok = true;
        int pct = (int)std::clamp<int64_t>(op.arg(0), 0, 100);
        for (auto& [n, tx] : cand) {
            if (!r.chance(pct, 100)) continue;
            bool ready = true;
            CAmount in = 0, out = 0;
            for (auto& vin : tx->vin) {
                auto it = view.find(vin.prevout);
                if (it == view.end()) { ready = false; break; }
                in += it->second.value;
            }
            if (!ready) continue;
            for (auto& o : tx->vout) out += o.nValue;
            fees += in - out;
            RefApplyTx(view, *tx, next_h);
            txs.push_back(tx);
            included.insert(tx->GetHash());
            auto m = made.find(tx->GetHash());
            if (m != made.end() && !m->second.scripts_ok) scripts_ok = false;
        }
        if (op.arg(1) & 1) {
            // a transaction conflicting with a mempool transaction that is NOT in the block
            for (auto& [n, tx] : cand) {
                if (included.count(tx->GetHash())) continue;
                auto it = view.find(tx->vin[0].prevout);
                if (it == view.end() || !kr.CanSpend(it->second.spk) || !TipUtxo().count(tx->vin[0].prevout)) continue;
                std::vector<Spendable> ins{{tx->vin[0].prevout, it->second, true}};
                CTransactionRef c = MakeTx(ins, {CTxOut(0, kr.Spk(SK::P2WPKH, 2))}, 3000, 0, 2, 0, {}, SigDefect::NONE, TS_SIMPLE);
                CAmount out = 0;
                for (auto& o : c->vout) out += o.nValue;
                fees += it->second.value - out;
                RefApplyTx(view, *c, next_h);
                txs.push_back(c);
                ctx.probe("block_conflicts_with_mempool");
                break;
            }
        }
        BlockExtras ex;
        ex.cb_extranonce = (uint32_t)(++cs.cb_nonce);
        const RefBlock& T = cs.ref->blocks[tip];
        int64_t time = std::max<int64_t>(cs.ref->MTP(tip) + 1, cs.now);
        auto block = BuildBlock(T.hash, next_h, time, txs, RefSubsidy(next_h, cs.ref->halving_interval) + fees, ex, node().params->GetConsensus());
        BlockLabel label;
        label.scripts_ok = scripts_ok;
        int idx = cs.AddBlock(block, tip, label);
        cs.Deliver(idx, true);
        if (cs.TipIdx() == idx) ctx.probe("mined_from_mempool");
        break;
    }
    case MP_REORG: {
        Op o;
        o.kind = OP_REORG;
        o.a = {op.arg(0), op.arg(1), op.arg(2), op.arg(3), 0};
        cs.ExecOp(o);
        any_disconnect = true;
        ctx.probe("mempool_reorg");
        break;
    }
    case MP_CLOCK:
        cs.now += std::clamp<int64_t>(op.arg(0), 1, 1000000);
        SetMockTime(std::chrono::seconds{cs.now});
        ctx.evf("clock+%ld", (long)op.arg(0));
        break;
    case MP_TEMPLATE:
        if (on_template) on_template(op);
        break;
    case MP_TIPDOWN: {
        const int t = TipIdx();
        if (t <= 0 || cs.ref->blocks[t].height < 3) break;
        bool related = false;
        for (int m : cs.manual_invalid)
            if (cs.ref->IsAncestor(m, t) || cs.ref->IsAncestor(t, m)) related = true;
        for (int m : cs.manual_maybe)
            if (cs.ref->IsAncestor(m, t) || cs.ref->IsAncestor(t, m)) related = true;
        if (related) break;
        CBlockIndex* pi = WITH_LOCK(cs_main, return node().cm().m_blockman.LookupBlockIndex(cs.ref->blocks[t].hash));
        if (!pi) break;
        BlockValidationState st, st2;
        node().cs().InvalidateBlock(st, pi);
        node().cs().ActivateBestChain(st2);
        node().DrainSignals();
        cs.manual_invalid.insert(t);
        ctx.probe("tip_invalidated");
        ctx.evf("invalidate tip #%d -> tip h=%d pool=%lu", t, node().Height(), pool().size());
        break;
    }
    default:
        if (op.kind < OP_NCHAINOPS) cs.ExecOp(op);
        break;
    }
    if (op.kind >= MP_TX) {
        cs.CheckAll(DescribeMempoolOp(op).c_str());
    }
    if (cfg.check_consistency) CheckConsistency(DescribeMempoolOp(op).c_str());
    if (after_op) after_op(op);
}

void MempoolSim::Finish()
{
    ctx.sim_ms = (uint64_t)(cs.now - cs.start_time) * 1000;
    cs.node->Stop(true);
}

void MempoolSim::Run()
{
    Setup();
    for (const Op& op : ctx.plan.ops) ExecOp(op);
    Finish();
}

} // namespace nodesim
