// walletsim — real descriptor wallets (CWallet on production SQLite databases) attached to a running SimNode through the
// real interfaces::Chain (node/interfaces.cpp ChainImpl). Foundation of the wallet engines (C44 balances, C41 create-transaction,
// C43 persistence/crash, C62 address uniqueness, C42 encryption, C56 fee bump).
//
// How it is wired
//  * WalletNode builds a node::NodeContext that BORROWS the SimNode's ChainstateManager, CTxMemPool and ValidationSignals (raw
//    pointers put into the NodeContext's unique_ptrs and release()d again in Detach()/the destructor), adds an ArgsManager of its
//    own, the SimNode's SignalInterrupt as shutdown signal and a do-nothing PeerManager (node::BroadcastTransaction asserts that
//    one exists; "relay to peers" is the only thing it would do). No scheduler, no fee estimator (Chain::getFeeRateEstimate then
//    reports "no estimate" and the wallet uses -fallbackfee, which WalletNode sets; or pass an explicit feerate in SendSpec).
//  * Wallets register with Chain::handleNotifications, i.e. with the SimNode's ValidationSignals.
//    START THE SimNode WITH  NodeOpts::make_runner = &nodesim::MakeDeferredTaskRunner  (see below). The SimNode's default
//    ImmediateTaskRunner runs a callback inside the validation code that emits it, i.e. in the middle of a mempool or chain
//    mutation with cs_main and mempool.cs held: the wallet's transactionRemovedFromMempool(REPLACED) then asks
//    Chain::isInMempool() about a transaction that is just being erased and is told "still there" (RefreshMempoolStatus keeps it
//    InMempool for ever). The real node can never show the wallet such a state: callbacks run on the scheduler thread and every
//    mempool query blocks on mempool.cs until the mutation is complete. The deferred runner reproduces the promptest legal
//    production schedule: callbacks are queued while the emitting thread holds cs_main and run, in order, at the first
//    insert()/flush() made without cs_main (SyncWithValidationInterfaceQueue = SimNode::DrainSignals(), the
//    LimitValidationInterfaceQueue calls inside ActivateBestChain, Chain::waitForNotifications during unload, ...).
//    Call SimNode::DrainSignals() after every operation before looking at the wallet.
//  * Databases: wallet::MakeDatabase(<walletdir>/<name>) -> SQLite file <walletdir>/<name>/wallet.dat (+ "-journal"), opened with
//    DatabaseOptions::use_unsafe_sync = false unless asked, so real fsync/fdatasync traffic reaches the simfs interposers.
//
// Recipe (see src/engines/c44_wallet_balance.cpp: Setup, Unload/Load, OpRestartNode)
//    cs.tweak_opts = [&](NodeOpts& o) { o.make_runner = &MakeDeferredTaskRunner; o.listeners.push_back(my_recorder); ... };
//    cs.StartNode();                                   // or your own SimNode
//    WalletNode wn(*cs.node, WalletNodeOpts{.keypool = 5});
//    auto w = wn.CreateWallet("w0", WalletCreateOpts{.seed = plan_knob});
//    auto dest = wn.NewAddress(*w, OutputType::BECH32);  CScript spk = WalletNode::ScriptFor(*dest);   // pay it from chaingen blocks/txs
//    SendSpec spec; spec.recipients = {WalletNode::Recipient(dest2, amount)}; SendResult r = wn.Send(*w, spec);
//    cs.node->DrainSignals();  wn.GetBalance(*w, /*include_nonmempool=*/true);  wn.AvailableCoins(*w);
//    wn.UnloadWallet(w);  ...  w = wn.LoadWallet("w0");
//  Crash engines: put the SimNode datadir (hence <datadir>/wallets) under the simfs root, keep unsafe_sync = false, cut the log and
//  start a second SimNode + WalletNode on the materialised image, LoadWallet there. SQLite draws its rollback-journal nonce from
//  its own OS-seeded PRNG: journal BYTES differ between runs, the sequence/sizes of I/O operations do not.
//
// Lifetime rules (the borrowed objects die in SimNode::Stop)
//    WalletNode wn(node);  ... wn.Detach();  node.Stop(clean);  node.Start();  wn.Attach();  wn.LoadWallet(name);
//  Detach() unloads every wallet (clean unload: best-block locator written, notifications unregistered, database closed) and must
//  run before SimNode::Stop(). The destructor calls Detach(). Do not keep std::shared_ptr<CWallet> copies across Unload/Detach.
//
// Determinism
//  * sim::ResetDeterminism makes GetRandBytes/FastRandomContext/GetRand* deterministic but NOT GetStrongRandBytes
//    (random.cpp: always_use_real_rng). The wallet uses GetStrongRandBytes for (a) the HD seed of a new wallet
//    (GenerateRandomKey in SetupOwnDescriptorScriptPubKeyMans) and (b) EncryptWallet (master key, salt, and a NEW random HD seed
//    for descriptor wallets). (a) is avoided: CreateWallet creates the wallet blank and then calls the production
//    CWallet::SetupDescriptorScriptPubKeyMans(batch, master_key) with a master key derived from WalletCreateOpts::seed.
//    (b) cannot be avoided: after Encrypt() keys, addresses and file bytes differ from run to run; keep them out of traces.
//  * Everything else the wallet draws (coin selection, change position, anti-fee-sniping, hash-map salts) comes from the
//    deterministic RNG. Signatures are RFC6979 / BIP340 with zero aux randomness.
//  * Heap addresses: CWallet::GetActiveScriptPubKeyMans()/GetAllScriptPubKeyMans() return std::set<ScriptPubKeyMan*>, and
//    CWallet::TopUpKeyPool() (wallet creation, EVERY load, keypoolrefill) rewrites the descriptor records (INSERT OR REPLACE = new
//    rowid) in the iteration order of that set, i.e. in the order of the objects' heap addresses. The physical layout of the SQLite
//    file, and with it the number and order of the I/O operations of every later transaction (= simfs log indices = crash points),
//    therefore depends on where malloc put eight objects, which depends on the allocation history of the process (plan generated in
//    the child vs. parsed from a replay file, verbose logging, ...: 6 of 24 C62 seeds recorded different I/O logs in `run` and in
//    `replay`). walletsim.cpp removes that: while at least one WalletNode exists, allocations of exactly
//    sizeof(wallet::DescriptorScriptPubKeyMan) are served from a slot array (lowest free slot first) by weak replacements of the
//    global operator new/delete; all other allocations go to malloc/free as before. The relative order of those objects is then a
//    function of the sequence of such allocations only. EnableSpkmSlotAllocator(false) switches it off (A/B comparisons).
#pragma once

#include "simnode.h"

#include <addresstype.h>
#include <coins.h>
#include <common/args.h>
#include <consensus/amount.h>
#include <interfaces/chain.h>
#include <node/context.h>
#include <outputtype.h>
#include <policy/feerate.h>
#include <primitives/transaction.h>
#include <support/allocators/secure.h>
#include <util/fs.h>
#include <util/task_runner.h>
#include <wallet/context.h>
#include <wallet/receive.h>
#include <wallet/wallet.h>

#include <map>
#include <memory>
#include <optional>
#include <set>
#include <string>
#include <vector>

namespace nodesim {

/** ValidationSignals task runner for nodes that carry wallets (NodeOpts::make_runner). Callbacks inserted while the calling thread
 *  holds cs_main are queued; the queue is run in order by the first insert()/flush() that happens without cs_main. Single-threaded
 *  harness only (the owner test reads the glibc mutex owner field). */
std::unique_ptr<util::TaskRunnerInterface> MakeDeferredTaskRunner();

/** Slot allocator for DescriptorScriptPubKeyMan objects (see "Determinism" above): on by default while a WalletNode exists. */
void EnableSpkmSlotAllocator(bool on);
/** Number of allocations served from the slot array so far in this process (evidence / reach probe). */
uint64_t SpkmSlotAllocations();

struct WalletNodeOpts {
    std::string walletdir;                 //!< default: <SimNode datadir>/wallets
    int keypool{8};                        //!< -keypool (small so that top-ups happen inside histories)
    bool unsafe_sync{false};               //!< DatabaseOptions::use_unsafe_sync (PRAGMA synchronous=OFF): speed only, never for crash engines
    bool broadcast{true};                  //!< -walletbroadcast: CommitTransaction submits to the node's mempool
    bool spend_zero_conf_change{true};     //!< -spendzeroconfchange
    std::string fallbackfee{"0.0002"};     //!< BTC/kvB; "0" disables (then every send needs SendSpec::feerate)
    std::vector<std::pair<std::string, std::string>> extra_args; //!< e.g. {"-addresstype","bech32m"}, {"-maxtxfee","0.5"}
};

struct WalletCreateOpts {
    uint64_t seed{1};                      //!< HD master key = f(seed): same seed, same keys and addresses
    uint64_t extra_flags{0};               //!< additional WALLET_FLAG_* (WALLET_FLAG_DESCRIPTORS is always set)
    bool blank{false};                     //!< no descriptors at all (import your own with ImportDescriptor)
    bool random_seed{false};               //!< production path (SetupWalletGeneration with GetStrongRandBytes): NOT deterministic
    SecureString passphrase;               //!< non-empty: EncryptWallet after creation (not deterministic, see above)
};

struct SendSpec {
    std::vector<wallet::CRecipient> recipients;
    std::optional<CFeeRate> feerate;       //!< explicit feerate (coin_control.m_feerate)
    bool override_feerate{false};          //!< fOverrideFeeRate: skip the wallet's min-fee checks
    std::vector<COutPoint> preset_inputs;  //!< coin control Select(); the wallet does NOT check that these are unspent
    bool allow_other_inputs{true};
    bool include_unsafe{false};
    int min_depth{0};
    std::optional<OutputType> change_type;
    std::optional<unsigned int> change_pos;
    CTxDestination change_dest{CNoDestination{}};
    std::optional<bool> signal_rbf;
    std::optional<uint32_t> locktime;
    uint32_t version{2};
    bool avoid_partial_spends{false};
    bool sign{true};
};

struct SendResult {
    bool ok{false};
    std::string error;
    CTransactionRef tx;
    CAmount fee{0};
    std::optional<unsigned int> change_pos;
};

struct WalletCoin {
    COutPoint outpoint;
    CTxOut txout;
    int depth{0};
    bool safe{false};
    bool from_me{false};
    bool solvable{false};
    bool operator<(const WalletCoin& o) const { return outpoint < o.outpoint; }
};

class WalletNode
{
public:
    explicit WalletNode(SimNode& node, WalletNodeOpts opts = {});
    ~WalletNode();
    WalletNode(const WalletNode&) = delete;
    WalletNode& operator=(const WalletNode&) = delete;

    /** Borrow the (running) SimNode's objects and build the interfaces::Chain. The constructor calls it if the node runs. */
    void Attach();
    /** Unload all wallets, destroy the chain interface, give the borrowed objects back. Call BEFORE SimNode::Stop(). */
    void Detach();
    bool Attached() const { return m_chain != nullptr; }

    // ---- wallet life cycle -------------------------------------------------------------------------------------------------
    /** Mirrors wallet::CreateWallet (MakeDatabase, CWallet::CreateNew, NotifyWalletLoaded, AddWallet, postInitProcess) with an explicit
     *  directory and a deterministic HD seed. Returns nullptr and sets last_error on failure. */
    std::shared_ptr<wallet::CWallet> CreateWallet(const std::string& name, const WalletCreateOpts& co = {});
    /** Mirrors wallet::LoadWallet (MakeDatabase require_existing, CWallet::LoadExisting incl. AttachChain + rescan from the stored
     *  locator, AddWallet, postInitProcess = resubmit unconfirmed wallet txs + requestMempoolTransactions). */
    std::shared_ptr<wallet::CWallet> LoadWallet(const std::string& name);
    /** Mirrors unloadwallet: RemoveWallet (writes the best-block locator, disconnects notifications) and destroys the CWallet
     *  (closes the database). `w` must be the last reference; it is reset. */
    void UnloadWallet(std::shared_ptr<wallet::CWallet>& w);
    std::shared_ptr<wallet::CWallet> Get(const std::string& name);
    std::vector<std::shared_ptr<wallet::CWallet>> Wallets();
    fs::path WalletDir() const { return m_walletdir; }
    fs::path WalletPath(const std::string& name) const { return m_walletdir / fs::PathFromString(name); }
    fs::path DbFile(const std::string& name) const { return WalletPath(name) / "wallet.dat"; }

    // ---- addresses / descriptors -------------------------------------------------------------------------------------------
    std::optional<CTxDestination> NewAddress(wallet::CWallet& w, OutputType type, const std::string& label = "");
    std::optional<CTxDestination> NewChangeAddress(wallet::CWallet& w, OutputType type);
    static CScript ScriptFor(const CTxDestination& d);
    /** Destination of a standard scriptPubKey (CNoDestination if there is none). */
    static CTxDestination DestFor(const CScript& spk);
    static wallet::CRecipient Recipient(const CTxDestination& d, CAmount amount, bool subtract_fee = false) { return wallet::CRecipient{d, amount, subtract_fee}; }
    /** importdescriptors in miniature (Parse, WalletDescriptor, AddWalletDescriptor, optional activation). */
    bool ImportDescriptor(wallet::CWallet& w, const std::string& descriptor, bool active, bool internal, int32_t range_start, int32_t range_end,
                          int32_t next_index, int64_t timestamp, const std::string& label = "");
    /** All scriptPubKeys the wallet currently watches (every ScriptPubKeyMan, including the look-ahead range). */
    std::set<CScript> AllScripts(wallet::CWallet& w);

    // ---- spending ----------------------------------------------------------------------------------------------------------
    /** wallet::CreateTransaction with a CCoinControl built from `spec`. Does not commit. */
    SendResult CreateTx(wallet::CWallet& w, const SendSpec& spec);
    /** CWallet::CommitTransaction (adds to the wallet, submits to the node's mempool when broadcasting is on). */
    void Commit(wallet::CWallet& w, const CTransactionRef& tx, std::optional<Txid> replaces = std::nullopt);
    /** CreateTx + Commit. */
    SendResult Send(wallet::CWallet& w, const SendSpec& spec);
    /** CWallet::SignTransaction(tx, coins, SIGHASH_DEFAULT): signs the inputs the wallet can sign (for transactions with foreign inputs
     *  too; `coins` must name the spent output of EVERY input). Returns whether the transaction is complete. */
    bool PartialSign(wallet::CWallet& w, CMutableTransaction& mtx, const std::map<COutPoint, Coin>& coins);
    /** AbandonTransaction guarded by TransactionCanBeAbandoned (the former asserts that the tx is in the wallet). */
    bool Abandon(wallet::CWallet& w, const Txid& txid);
    /** ResubmitWalletTransactions(MEMPOOL_NO_BROADCAST, force) — what load and the periodic resend do. */
    void Resubmit(wallet::CWallet& w, bool force = true);
    /** rescanblockchain: ScanForWalletTransactions from `start_height` to the tip. Returns false if the scan failed. */
    bool Rescan(wallet::CWallet& w, int start_height);
    bool Encrypt(wallet::CWallet& w, const SecureString& passphrase);

    // ---- observation -------------------------------------------------------------------------------------------------------
    wallet::Balance GetBalance(wallet::CWallet& w, bool include_nonmempool = false, int min_depth = 0, bool avoid_reuse = true);
    /** wallet::AvailableCoins with a default CCoinControl (always non-null: AvailableCoins dereferences it for unconfirmed coins). Sorted by outpoint. */
    std::vector<WalletCoin> AvailableCoins(wallet::CWallet& w, bool include_unsafe = false, bool include_immature = false, int min_depth = 0, bool skip_locked = true);
    bool InMempool(const Txid& txid);
    /** "Confirmed(h=..,i=..)" / "InMempool" / "BlockConflicted(h=..)" / "Inactive(abandoned=..)" [+ " mempool_conflicts=n"] / "absent". */
    std::string TxStateString(wallet::CWallet& w, const Txid& txid);
    std::vector<Txid> WalletTxids(wallet::CWallet& w);

    SimNode& node() { return m_node; }
    interfaces::Chain& chain() { return *m_chain; }
    node::NodeContext& node_context() { return *m_ctx; }
    wallet::WalletContext& context() { return *m_wctx; }
    ArgsManager& args() { return m_args; }
    const WalletNodeOpts& opts() const { return m_opts; }

    std::string last_error;
    std::vector<std::string> last_warnings;

private:
    SimNode& m_node;
    WalletNodeOpts m_opts;
    fs::path m_walletdir;
    ArgsManager m_args;
    std::unique_ptr<node::NodeContext> m_ctx;
    std::unique_ptr<interfaces::Chain> m_chain;
    std::unique_ptr<wallet::WalletContext> m_wctx;

    std::shared_ptr<wallet::CWallet> Finish(std::shared_ptr<wallet::CWallet> w);
};

} // namespace nodesim
