// chaingen — generator side of nodesim: deterministic keys, output script kinds whose validity the
// generator knows by construction, transaction and block builders (own merkle / witness commitment).
#pragma once

#include "refchain.h"

#include <consensus/params.h>
#include <key.h>
#include <primitives/block.h>
#include <primitives/transaction.h>
#include <pubkey.h>
#include <script/script.h>

#include <memory>
#include <optional>
#include <vector>

namespace nodesim {

enum class SK : int { TRUE_WSH = 0, TRUE_BARE, P2WPKH, P2PKH, P2TR, P2SH_P2WPKH, NKINDS, OPRETURN = 100, UNKNOWN = 101 };
constexpr int N_KEYS = 4;

struct SpendInfo {
    SK kind{SK::UNKNOWN};
    int key{0};
};

class Keyring
{
public:
    std::vector<CKey> keys;
    std::vector<CPubKey> pubs;
    std::map<CScript, SpendInfo> registry; //!< scriptPubKey -> how to spend it
    Keyring();
    CScript Spk(SK kind, int key) const;
    SpendInfo Classify(const CScript& spk) const;
    bool CanSpend(const CScript& spk) const { SK k = Classify(spk).kind; return k != SK::UNKNOWN && k != SK::OPRETURN; }
    /** An anyone-can-spend bare script of exactly `size` bytes (pushes + OP_DROPs, then OP_1+key); sizes 9999 and 10000 are
     *  registered as spendable (kind TRUE_BARE), 10001 is unspendable by the script-size rule. */
    CScript BigTrue(size_t size, int key) const;
};
const Keyring& Keys();

struct TxIn {
    COutPoint prevout;
    RefCoin coin;          //!< what the generator believes it spends (spk + value needed for signing)
    uint32_t sequence{0xffffffff};
};

enum class SigDefect { NONE, BAD_SIG, STRIP_WITNESS, WRONG_KEY };

/** Build and sign a transaction. Returns the tx; `scripts_ok` says whether every input's script is satisfied
 *  under consensus rules assuming the spent coins are exactly `ins[i].coin`. */
CTransactionRef BuildTx(const std::vector<TxIn>& ins, const std::vector<CTxOut>& outs, uint32_t locktime, uint32_t version,
                        SigDefect defect, size_t defect_input, bool& scripts_ok);

struct BlockExtras {
    bool bad_merkle{false};           //!< header root does not match the tx list
    bool bad_witness_commitment{false};
    bool omit_witness_commitment{false};
    bool bad_pow{false};              //!< hash above target
    bool wrong_bip34_height{false};
    int32_t version{0x20000000};
    std::optional<CScript> coinbase_spk;
    std::vector<CTxOut> extra_coinbase_outputs;
    std::optional<uint32_t> cb_extranonce;
};

/** Build a block on `prev_hash` at `height`; coinbase pays `coinbase_value` to a generator-known script. */
std::shared_ptr<CBlock> BuildBlock(const uint256& prev_hash, int height, int64_t time, const std::vector<CTransactionRef>& txs,
                                   CAmount coinbase_value, const BlockExtras& ex, const Consensus::Params& cp);
/** Re-grind the nonce so that the header hash satisfies (or, with want_bad, violates) nBits. */
void Grind(CBlockHeader& h, const Consensus::Params& cp, bool want_bad = false);
/** Recompute merkle root + witness commitment of a block whose tx list was edited, then grind. */
void FinalizeBlock(CBlock& b, const Consensus::Params& cp, bool with_commitment = true);

} // namespace nodesim
