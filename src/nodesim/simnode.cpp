#include "simnode.h"

#include <kernel/coinstats.h>
#include <kernel/mempool_options.h>
#include <node/caches.h>
#include <util/fs.h>
#include <util/task_runner.h>
#include <util/translation.h>

namespace nodesim {

SimNode::SimNode(NodeOpts o) : opts(std::move(o))
{
    params = CChainParams::RegTest(opts.regtest);
}

SimNode::~SimNode()
{
    if (Running()) Stop(/*clean=*/false);
}

bool SimNode::Start()
{
    last_error.clear();
    fs::path dir = fs::PathFromString(opts.dir);
    fs::create_directories(dir / "blocks");
    notifications = std::make_unique<SimNotifications>();
    std::unique_ptr<util::TaskRunnerInterface> runner;
    if (opts.make_runner) runner = opts.make_runner();
    else runner = std::make_unique<util::ImmediateTaskRunner>();
    signals = std::make_unique<ValidationSignals>(std::move(runner));
    verdicts = std::make_shared<VerdictRecorder>();
    signals->RegisterSharedValidationInterface(verdicts);
    for (auto& l : opts.listeners) signals->RegisterSharedValidationInterface(l);

    if (opts.with_mempool) {
        CTxMemPool::Options mo;
        mo.check_ratio = opts.mempool_check_ratio;
        mo.max_size_bytes = opts.mempool_max_bytes;
        mo.expiry = std::chrono::seconds{opts.mempool_expiry_s};
        mo.require_standard = opts.require_standard;
        if (opts.limits) mo.limits = *opts.limits;
        mo.signals = signals.get();
        bilingual_str err;
        mempool = std::make_unique<CTxMemPool>(mo, err);
        if (!err.empty()) { last_error = "mempool: " + err.original; return false; }
    }

    kernel::CacheSizes caches{opts.total_cache_bytes};
    if (opts.coins_cache_bytes) caches.coins = *opts.coins_cache_bytes;

    ChainstateManager::Options co{
        .chainparams = *params,
        .datadir = dir,
        .check_block_index = opts.check_block_index,
        .notifications = *notifications,
        .signals = signals.get(),
        .worker_threads_num = opts.worker_threads,
        .prevoutfetch_threads_num = opts.prevout_threads,
    };
    co.minimum_chain_work = opts.min_chain_work;
    co.assumed_valid_block = opts.assumed_valid;
    co.max_tip_age = opts.max_tip_age;
    co.coins_view.batch_write_bytes = opts.batch_write_bytes;
    if (opts.sigcache_bytes) co.signature_cache_bytes = *opts.sigcache_bytes;
    if (opts.scriptcache_bytes) co.script_execution_cache_bytes = *opts.scriptcache_bytes;
    node::BlockManager::Options bo{
        .chainparams = *params,
        .prune_target = opts.prune_target,
        .fast_prune = opts.fast_prune,
        .blocks_dir = dir / "blocks",
        .notifications = *notifications,
        .block_tree_db_params = DBParams{
            .path = dir / "blocks" / "index",
            .cache_bytes = caches.block_tree_db,
            .memory_only = opts.block_tree_db_in_memory,
        },
    };
    try {
        chainman = std::make_unique<ChainstateManager>(interrupt, co, bo);
    } catch (const std::exception& e) {
        last_error = std::string("ChainstateManager: ") + e.what();
        last_status = node::ChainstateLoadStatus::FAILURE;
        return false;
    }
    node::ChainstateLoadOptions lo;
    lo.mempool = mempool.get();
    lo.coins_db_in_memory = opts.coins_db_in_memory;
    lo.prune = opts.prune_target > 0;
    lo.check_blocks = opts.check_blocks;
    lo.check_level = opts.check_level;
    lo.require_full_verification = opts.require_full_verification;
    try {
        auto [st, err] = node::LoadChainstate(*chainman, caches, lo);
        last_status = st;
        if (st != node::ChainstateLoadStatus::SUCCESS) { last_error = "LoadChainstate: " + err.original; return false; }
        std::tie(st, err) = node::VerifyLoadedChainstate(*chainman, lo);
        last_status = st;
        if (st != node::ChainstateLoadStatus::SUCCESS) { last_error = "VerifyLoadedChainstate: " + err.original; return false; }
    } catch (const std::exception& e) {
        last_error = std::string("load exception: ") + e.what();
        last_status = node::ChainstateLoadStatus::FAILURE;
        return false;
    }
    if (opts.after_load) opts.after_load();
    BlockValidationState state;
    if (!chainman->ActiveChainstate().ActivateBestChain(state)) {
        last_error = "ActivateBestChain: " + state.ToString();
        return false;
    }
    if (Fatal()) {
        last_error = "fatal error during start: " + (notifications->fatal_errors.empty() ? notifications->flush_errors[0] : notifications->fatal_errors[0]);
        return false;
    }
    return true;
}

void SimNode::Stop(bool clean)
{
    if (chainman) {
        if (clean) {
            LOCK(cs_main);
            for (const auto& cs : chainman->m_chainstates)
                if (cs->CanFlushToDisk()) cs->ForceFlushStateToDisk();
        }
        if (signals) signals->FlushBackgroundCallbacks();
    }
    if (signals && verdicts) signals->UnregisterSharedValidationInterface(verdicts);
    if (signals)
        for (auto& l : opts.listeners) signals->UnregisterSharedValidationInterface(l);
    chainman.reset();
    mempool.reset();
    signals.reset();
    verdicts.reset();
    // notifications kept so that callers can still inspect errors
}

const CBlockIndex* SimNode::Tip()
{
    LOCK(cs_main);
    return chainman->ActiveChain().Tip();
}
int SimNode::Height()
{
    LOCK(cs_main);
    return chainman->ActiveChain().Height();
}
uint256 SimNode::TipHash()
{
    LOCK(cs_main);
    auto* t = chainman->ActiveChain().Tip();
    return t ? t->GetBlockHash() : uint256{};
}

SimNode::BlockResult SimNode::ProcessBlock(const std::shared_ptr<const CBlock>& block, bool force_processing, bool min_pow_checked)
{
    size_t before = verdicts->verdicts.size();
    bool new_block = false;
    bool ok = chainman->ProcessNewBlock(block, force_processing, min_pow_checked, &new_block);
    DrainSignals();
    BlockResult r{ok, new_block, std::nullopt};
    const uint256 h = block->GetHash();
    for (size_t i = verdicts->verdicts.size(); i-- > before;)
        if (verdicts->verdicts[i].hash == h) { r.verdict = verdicts->verdicts[i]; break; }
    return r;
}

bool SimNode::ProcessHeaders(const std::vector<CBlockHeader>& headers, BlockValidationState& state)
{
    return chainman->ProcessNewBlockHeaders(headers, /*min_pow_checked=*/true, state);
}

void SimNode::DrainSignals()
{
    if (signals) signals->SyncWithValidationInterfaceQueue();
}

uint256 SimNode::UtxoHash(uint64_t* ncoins, CAmount* total)
{
    LOCK(cs_main);
    Chainstate& c = chainman->ActiveChainstate();
    c.ForceFlushStateToDisk(/*wipe_cache=*/false);
    auto s = kernel::ComputeUTXOStats(kernel::CoinStatsHashType::HASH_SERIALIZED, c.CoinsDB(), chainman->m_blockman);
    if (!s) return uint256{};
    if (ncoins) *ncoins = s->coins_count;
    if (total) *total = s->total_amount.value_or(-1);
    return s->hashSerialized;
}

} // namespace nodesim
