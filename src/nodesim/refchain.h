// RefChain — the reference model of nodesim. Shares no validation code with /repo: it uses bitcoin's
// data types, serialisation and SHA-256d only, and re-implements from the BIP texts the merkle layout,
// the subsidy schedule, BIP113/BIP68/BIP30/BIP34 arithmetic, coinbase maturity and value conservation.
// Script validity is not re-derived: it comes from the generator's label (it knows what it signed).
#pragma once

#include <arith_uint256.h>
#include <consensus/amount.h>
#include <primitives/block.h>
#include <primitives/transaction.h>
#include <script/script.h>
#include <uint256.h>

#include <map>
#include <memory>
#include <optional>
#include <set>
#include <string>
#include <vector>

namespace nodesim {

uint256 RefMerkleRoot(std::vector<uint256> leaves, bool* mutated = nullptr);
uint256 RefBlockMerkleRoot(const CBlock& b, bool* mutated = nullptr);
uint256 RefWitnessMerkleRoot(const CBlock& b);
/** Merkle branch for leaf `pos` (model's own), bottom-up sibling list. */
std::vector<uint256> RefMerkleBranch(std::vector<uint256> leaves, size_t pos);
CAmount RefSubsidy(int height, int halving_interval = 150);
/** Sum of subsidies of heights 1..h (genesis coinbase is unspendable and never in the UTXO set). */
CAmount RefSubsidySum(int height, int halving_interval = 150);
bool RefUnspendable(const CScript& spk);

struct RefCoin {
    CAmount value;
    CScript spk;
    int height;
    bool coinbase;
    bool operator==(const RefCoin& o) const { return value == o.value && spk == o.spk && height == o.height && coinbase == o.coinbase; }
};
using RefUtxo = std::map<COutPoint, RefCoin>;

/** What the generator asserts about things the model does not re-derive. */
struct BlockLabel {
    bool scripts_ok{true};     //!< every input's script/witness satisfies its prevout under consensus flags
    bool pow_ok{true};         //!< header hash meets nBits and nBits is the required value
    bool structure_ok{true};   //!< weight/sigops within limits, version acceptable (labelled defects set this false)
    std::string defect;        //!< human-readable defect name ("" = none)
};

enum class Verdict { VALID, INVALID, INVALID_ANCESTOR, MUTATED };

struct RefBlock {
    std::shared_ptr<const CBlock> block;
    uint256 hash;
    int parent{-1};            //!< index in RefChain::blocks (-1 only for genesis)
    int height{0};
    int64_t time{0};
    BlockLabel label;
    Verdict verdict{Verdict::VALID};
    std::string reason;        //!< model's reason class when not VALID
    std::shared_ptr<const RefUtxo> utxo; //!< UTXO after this block (only when verdict == VALID)
    CAmount fees{0};
    std::vector<int> children;
};

class RefChain
{
public:
    std::vector<RefBlock> blocks;          //!< [0] = genesis
    std::map<uint256, int> by_hash;
    int halving_interval{150};
    int bip34_height{1};
    int csv_height{1};
    int maturity{100};

    explicit RefChain(const CBlock& genesis);

    /** Add a block built on blocks[parent] and compute the model's verdict. Returns its index. */
    int Add(std::shared_ptr<const CBlock> block, int parent, const BlockLabel& label);
    int Find(const uint256& h) const;
    const RefBlock& at(int i) const { return blocks[i]; }
    int64_t MTP(int idx) const;             //!< median time past of block idx (over itself and 10 ancestors)
    int Ancestor(int idx, int height) const;
    bool IsAncestor(int anc, int idx) const;
    bool ChainValid(int idx) const { return blocks[idx].verdict == Verdict::VALID; }
    /** work units (equal per block on regtest): height+1 */
    int Work(int idx) const { return blocks[idx].height + 1; }
    /** Path from the fork point (exclusive) to idx (inclusive). */
    std::vector<int> PathFrom(int fork, int idx) const;
    int ForkPoint(int a, int b) const;

    /** Model's judgement of a single transaction against a view at (height, prev block idx): returns "" if OK else reason. */
    std::string CheckTxContextual(const CTransaction& tx, const RefUtxo& view, int height, int prev_idx, CAmount& fee_out) const;
    bool IsFinal(const CTransaction& tx, int height, int64_t cutoff_time) const;
    bool SequenceLocksOk(const CTransaction& tx, const RefUtxo& view, int height, int prev_idx) const;
};

/** Apply a (contextually checked) tx to a view: remove inputs, add spendable outputs. */
void RefApplyTx(RefUtxo& view, const CTransaction& tx, int height);

} // namespace nodesim
