#include "chainsim.h"

#include <chain.h>
#include <coins.h>
#include <consensus/validation.h>
#include <txdb.h>
#include <util/time.h>
#include <validation.h>

#include <algorithm>

using namespace sim;

namespace nodesim {

static const char* kDefectNames[D_NDEFECTS] = {
    "none", "cb-overpay", "in-below-out", "out-too-large", "out-negative", "out-sum-overflow",
    "missing-input", "spent-input", "later-in-block", "dup-input", "double-spend-in-block", "spend-unspendable",
    "premature-coinbase-spend", "nonfinal-height", "nonfinal-time", "bip68-height", "bip68-time",
    "bad-sig", "strip-witness", "wrong-key", "bad-merkle", "bad-witness-commitment",
    "bad-pow", "wrong-bip34-height", "time-too-old", "second-coinbase", "old-version"};
const char* DefectName(int d) { return d >= 0 && d < D_NDEFECTS ? kDefectNames[d] : "?"; }
static const char* kBoundaryNames[B_NBOUNDARY] = {"-", "cb-exact", "locktime-height-ok", "locktime-time-ok", "bip68-height-ok", "bip68-time-ok", "cb-spend-at-100", "time-mtp+1", "zero-fee"};

std::string DescribeChainOp(const Op& op)
{
    char b[200];
    switch (op.kind) {
    case OP_MINE:
        snprintf(b, sizeof b, "mine(parent=%s#%ld, ntx=%ld, txseed=%ld, defect=%s, boundary=%s, time_mode=%ld, deliver=%ld)", op.arg(0) ? "any" : "recent", (long)op.arg(1), (long)op.arg(2),
                 (long)op.arg(3), DefectName((int)op.mod(4, D_NDEFECTS)), kBoundaryNames[op.mod(5, B_NBOUNDARY)], (long)op.arg(6), (long)op.arg(7));
        break;
    case OP_DELIVER: snprintf(b, sizeof b, "deliver_block(%s#%ld, force_processing=%ld, times=%ld)", op.arg(0) ? "any" : "recent", (long)op.arg(1), (long)op.arg(2), (long)op.arg(3)); break;
    case OP_HEADER: snprintf(b, sizeof b, "deliver_header(%s#%ld)", op.arg(0) ? "any" : "recent", (long)op.arg(1)); break;
    case OP_INVALIDATE: snprintf(b, sizeof b, "invalidateblock(%s#%ld)", op.arg(0) ? "any" : "recent", (long)op.arg(1)); break;
    case OP_RECONSIDER: snprintf(b, sizeof b, "reconsiderblock(manual#%ld, %s#%ld)", (long)op.arg(0), op.a.size() > 1 ? (op.mod(1, 6) <= 2 ? "itself" : op.mod(1, 6) == 5 ? "descendant" : "ancestor") : "itself", (long)op.arg(2)); break;
    case OP_RESTART: snprintf(b, sizeof b, "restart(clean)"); break;
    case OP_FLUSH: snprintf(b, sizeof b, "flush(mode=%ld)", (long)op.arg(0)); break;
    case OP_CLOCK: snprintf(b, sizeof b, "clock += %lds", (long)op.arg(0)); break;
    case OP_CHECK_UTXO: snprintf(b, sizeof b, "compare UTXO set with model"); break;
    case OP_REORG: snprintf(b, sizeof b, "reorg(depth=%ld, extra=%ld, ntx=%ld, txseed=%ld, deliver_order=%ld)", (long)op.arg(0), (long)op.arg(1), (long)op.arg(2), (long)op.arg(3), (long)op.arg(4)); break;
    default: snprintf(b, sizeof b, "?");
    }
    return b;
}

Plan GenChainPlan(uint64_t seed, Tier tier, const std::string& bias)
{
    Rng rng(seed);
    Plan p;
    p.knobs["base"] = rng.range(101, 135);
    p.knobs["on_disk"] = rng.chance(1, 3);
    p.knobs["coins_cache_kb"] = rng.chance(1, 3) ? rng.range(8, 64) : 8192;
    p.knobs["batch_bytes"] = rng.chance(1, 2) ? rng.range(200, 4000) : (16 << 20);
    std::vector<uint32_t> dw(D_NDEFECTS, 0), bw(B_NBOUNDARY, 0);
    std::vector<uint32_t> w(OP_NCHAINOPS, 0);
    int defect_pct = 25;
    w[OP_MINE] = 40;
    w[OP_DELIVER] = 15;
    w[OP_HEADER] = 5;
    w[OP_CLOCK] = 3;
    w[OP_FLUSH] = 4;
    w[OP_RESTART] = 2;
    w[OP_CHECK_UTXO] = 2;
    w[OP_REORG] = 4;
    int deliver_now_pct = 70;
    int fork_pct = 25;
    int max_tx = 4;
    auto all_defects = [&](uint32_t v) { for (int d = 1; d < D_NDEFECTS; ++d) dw[d] = v; };
    if (bias == "c08") {
        all_defects(2);
        w[OP_INVALIDATE] = 5;
        w[OP_RECONSIDER] = 4;
        w[OP_DELIVER] = 25;
        w[OP_HEADER] = 10;
        deliver_now_pct = (int)rng.range(20, 80);
        fork_pct = (int)rng.range(20, 60);
        max_tx = 2;
    } else if (bias == "c01") {
        for (int d : {D_CB_OVERPAY, D_IN_BELOW_OUT, D_OUT_TOO_LARGE, D_OUT_NEGATIVE, D_OUT_SUM_OVERFLOW}) dw[d] = 10;
        bw[B_CB_EXACT] = 10; bw[B_ZERO_FEE_EQUAL] = 6; bw[B_NONE] = 10;
        defect_pct = 30;
        p.knobs["base"] = rng.range(120, 149); // cross the first halving (150) inside the history
        max_tx = 5;
    } else if (bias == "c02") {
        for (int d : {D_MISSING_INPUT, D_SPENT_INPUT, D_LATER_IN_BLOCK, D_DUP_INPUT, D_DOUBLE_SPEND_IN_BLOCK, D_SPEND_UNSPENDABLE}) dw[d] = 10;
        defect_pct = 35;
        fork_pct = 30;
        max_tx = 5;
    } else if (bias == "c05") {
        for (int d : {D_PREMATURE_CB, D_NONFINAL_HEIGHT, D_NONFINAL_TIME, D_BIP68_HEIGHT, D_BIP68_TIME}) dw[d] = 10;
        dw[D_TIME_TOO_OLD] = 3;
        for (int b = B_LOCKTIME_HEIGHT_OK; b <= B_TIME_MTP_PLUS1; ++b) bw[b] = 10;
        bw[B_NONE] = 5;
        defect_pct = 40;
        fork_pct = 25;
    } else if (bias == "c09") {
        all_defects(1);
        defect_pct = 10;
        fork_pct = (int)rng.range(30, 60);
        w[OP_INVALIDATE] = 6;
        w[OP_RECONSIDER] = 4;
        w[OP_FLUSH] = 10;
        w[OP_CHECK_UTXO] = 0;
        w[OP_REORG] = 12;
        max_tx = 6;
        p.knobs["on_disk"] = rng.chance(2, 3);
    } else {
        all_defects(2);
    }
    if (bw[B_NONE] == 0) bw[B_NONE] = 10;
    if (!p.knobs["on_disk"]) w[OP_RESTART] = 0;
    // outputs whose script sits at the 10,000-byte script-size limit (spendable at 9999/10000, unspendable at 10001)
    if (bias == "c09" || bias == "c02" || bias == "c01" || bias == "crash") p.knobs["big_script_pct"] = 3;
    int nops = (int)rng.range(15, tier == Tier::THOROUGH ? 90 : 50);
    for (int i = 0; i < nops; ++i) {
        Op op;
        op.kind = (int)rng.pick(w);
        switch (op.kind) {
        case OP_MINE: {
            bool fork = rng.chance(fork_pct, 100);
            int defect = rng.chance(defect_pct, 100) ? (int)rng.pick(dw) : D_NONE;
            int boundary = defect == D_NONE ? (int)rng.pick(bw) : B_NONE;
            op.a = {fork ? 1 : 0, (int64_t)(fork ? rng.below(1000) : rng.skewed(0, 3)), (int64_t)rng.range(0, max_tx), (int64_t)(rng.next() >> 16), defect, boundary,
                    (int64_t)rng.below(3), rng.chance(deliver_now_pct, 100) ? 1 : (rng.chance(1, 2) ? 2 : 0)};
            break;
        }
        case OP_DELIVER: op.a = {(int64_t)rng.below(2), (int64_t)rng.below(1000), (int64_t)(rng.chance(3, 4) ? 1 : 0), (int64_t)rng.range(1, 2)}; break;
        case OP_HEADER: op.a = {(int64_t)rng.below(2), (int64_t)rng.below(1000)}; break;
        case OP_INVALIDATE: op.a = {(int64_t)rng.below(2), (int64_t)rng.below(1000)}; break;
        case OP_RECONSIDER: op.a = {(int64_t)rng.below(1000), (int64_t)rng.below(6), (int64_t)rng.below(1000)}; break;
        case OP_RESTART: break;
        case OP_FLUSH: op.a = {(int64_t)rng.below(4)}; break;
        case OP_CLOCK: op.a = {(int64_t)rng.skewed(1, 7200)}; break;
        case OP_CHECK_UTXO: break;
        case OP_REORG: op.a = {(int64_t)rng.skewed(1, 6), (int64_t)rng.range(1, 2), (int64_t)rng.range(0, max_tx), (int64_t)(rng.next() >> 16), (int64_t)rng.below(3)}; break;
        }
        p.ops.push_back(op);
    }
    return p;
}

// ---------------------------------------------------------------------------------------------

void ChainSim::StartNode()
{
    NodeOpts o;
    o.dir = RunDir() + "/node0";
    bool on_disk = ctx.knob("on_disk", 0) != 0;
    o.coins_db_in_memory = !on_disk;
    o.block_tree_db_in_memory = !on_disk;
    o.coins_cache_bytes = (uint64_t)ctx.knob("coins_cache_kb", 8192) * 1024;
    o.batch_write_bytes = (uint64_t)ctx.knob("batch_bytes", 16 << 20);
    o.with_mempool = true;
    o.mempool_check_ratio = 0;
    o.check_blocks = 0;
    o.check_level = 4;
    if (tweak_opts) tweak_opts(o);
    node = std::make_unique<SimNode>(o);
    if (!node->Start()) ctx.failf("node-start-failed", "%s", node->last_error.c_str());
    if (on_node_started) on_node_started();
    ref = std::make_unique<RefChain>(node->params->GenesisBlock());
    delivered.assign(1, 1);
    header_given.assign(1, 1);
    now = ref->blocks[0].time + 1000 + start_shift;
    SetMockTime(std::chrono::seconds{now});
}

int ChainSim::TipIdx()
{
    return ref->Find(node->TipHash());
}

bool ChainSim::UnderManualInvalidation(int idx) const
{
    for (int m : manual_invalid)
        if (ref->IsAncestor(m, idx)) return true;
    return false;
}

bool ChainSim::UnderManualMaybe(int idx) const
{
    for (int m : manual_maybe)
        if (ref->IsAncestor(m, idx)) return true;
    return false;
}

// reconsiderblock(b) clears the failure mark of b, of every ancestor and of every descendant of b. Marks (definite or undecided) on
// b's line are dropped; where a dropped mark sat on a strict ancestor X of b, the branches leaving the path X..parent(b) become undecided.
void ChainSim::ModelReconsider(int b)
{
    std::vector<int> strict_anc_marks;
    for (auto* set : {&manual_invalid, &manual_maybe}) {
        for (auto it = set->begin(); it != set->end();) {
            const int m = *it;
            if (m == b || ref->IsAncestor(b, m)) { it = set->erase(it); continue; }
            if (ref->IsAncestor(m, b)) { strict_anc_marks.push_back(m); it = set->erase(it); continue; }
            ++it;
        }
    }
    for (int x : strict_anc_marks) {
        // path x .. parent(b); children of path blocks that are not themselves on the path to b
        for (int c = 1; c < (int)ref->blocks.size(); ++c) {
            const int par = ref->blocks[c].parent;
            if (par < 0 || c == b) continue;
            const bool parent_on_path = (par == x || ref->IsAncestor(x, par)) && ref->IsAncestor(par, b) && par != b;
            if (!parent_on_path || ref->IsAncestor(c, b)) continue;
            if ((delivered[c] || header_given[c]) && !UnderManualInvalidation(c)) manual_maybe.insert(c);
        }
    }
}

static std::string Hx(const uint256& h) { return h.ToString().substr(0, 10); }

int ChainSim::MineOn(int parent, int ntx, uint64_t txseed, int defect, int boundary, int time_mode)
{
    const Consensus::Params& cp = node->params->GetConsensus();
    const Keyring& kr = Keys();
    const int big_script_pct = (int)ctx.knob("big_script_pct", 0);
    const RefBlock& P = ref->blocks[parent];
    const int height = P.height + 1;
    const int64_t mtp = ref->MTP(parent);
    Rng r(mix64(txseed, 0x6d696e65));
    int64_t time;
    if (defect == D_TIME_TOO_OLD) time = mtp;
    else if (time_mode == 1 || boundary == B_TIME_MTP_PLUS1) time = mtp + 1;
    else time = std::max<int64_t>(mtp + 1, P.time + r.range(1, time_mode == 2 ? 3000 : 600));
    if (next_block_time_now && defect == D_NONE && boundary == 0 && time_mode != 1) { time = std::max<int64_t>(time, now); next_block_time_now = false; }
    if (time > now) { now = time; SetMockTime(std::chrono::seconds{now}); }

    BlockLabel label;
    BlockExtras ex;
    ex.cb_extranonce = (uint32_t)(++cb_nonce);
    if (coinbase_pad_max > 0) {
        // bulk up the block with an unspendable coinbase output so that block files roll over (prune / flat-file engines)
        size_t n = (size_t)r.range(coinbase_pad_min, coinbase_pad_max);
        ex.extra_coinbase_outputs.emplace_back(0, CScript() << OP_RETURN << std::vector<unsigned char>(n, (unsigned char)(cb_nonce & 0xff)));
    }
    ex.coinbase_spk = kr.Spk((SK)r.below((int)SK::NKINDS), (int)r.below(N_KEYS));
    std::vector<CTransactionRef> txs;
    CAmount fees = 0;

    if (P.verdict == Verdict::VALID) {
        RefUtxo view = *P.utxo;
        struct Cand { COutPoint op; RefCoin coin; };
        std::vector<Cand> cands;
        for (auto& [op, c] : view)
            if (kr.CanSpend(c.spk) && (!c.coinbase || height - c.height >= ref->maturity)) cands.push_back({op, c});
        auto take = [&](size_t i) { Cand c = cands[i]; cands.erase(cands.begin() + i); return c; };
        auto rand_outs = [&](CAmount total, int n) {
            std::vector<CTxOut> outs;
            for (int i = 0; i < n; ++i) {
                CAmount v = i + 1 == n ? total : (CAmount)r.below((uint64_t)total + 1);
                total -= v;
                if (r.chance(1, 12)) outs.emplace_back(v, kr.Spk(SK::OPRETURN, (int)r.below(4)));
                else if (big_script_pct > 0 && r.chance((uint32_t)big_script_pct, 100)) {
                    // scriptPubKey at the script-size limit: 9999 and 10000 bytes are spendable coins, 10001 bytes is unspendable
                    static const size_t kSizes[] = {10000, 10000, 9999, 10001};
                    outs.emplace_back(v, kr.BigTrue(kSizes[r.below(4)], (int)r.below(N_KEYS)));
                    ctx.probe("output_script_at_size_limit");
                } else outs.emplace_back(v, kr.Spk((SK)r.below((int)SK::NKINDS), (int)r.below(N_KEYS)));
            }
            return outs;
        };
        auto add_tx = [&](const std::vector<TxIn>& ins, const std::vector<CTxOut>& outs, uint32_t locktime, uint32_t version, SigDefect sd = SigDefect::NONE, bool track = true) {
            bool ok = true;
            CTransactionRef tx = BuildTx(ins, outs, locktime, version, sd, r.below(8), ok);
            if (!ok) label.scripts_ok = false;
            txs.push_back(tx);
            if (track) {
                // make outputs available for in-block chains
                for (size_t o = 0; o < tx->vout.size(); ++o)
                    if (kr.CanSpend(tx->vout[o].scriptPubKey) && r.chance(1, 2)) cands.push_back({COutPoint(tx->GetHash(), (uint32_t)o), RefCoin{tx->vout[o].nValue, tx->vout[o].scriptPubKey, height, false}});
            }
            return tx;
        };
        // ordinary transactions
        for (int t = 0; t < ntx && !cands.empty(); ++t) {
            int nin = (int)std::min<size_t>(cands.size(), (size_t)r.range(1, 3));
            std::vector<TxIn> ins;
            CAmount tot = 0;
            for (int i = 0; i < nin; ++i) {
                Cand c = take(r.below(cands.size()));
                ins.push_back({c.op, c.coin, r.chance(1, 2) ? 0xffffffffu : 0xfffffffeu});
                tot += c.coin.value;
            }
            CAmount fee = boundary == B_ZERO_FEE_EQUAL ? 0 : (CAmount)r.below((uint64_t)std::min<CAmount>(tot, 100000) + 1);
            fees += fee;
            add_tx(ins, rand_outs(tot - fee, (int)r.range(1, 3)), 0, r.chance(1, 2) ? 1 : 2);
        }
        // one labelled defect or boundary shape
        auto one_input = [&](auto pred) -> std::optional<Cand> {
            std::vector<size_t> ok;
            for (size_t i = 0; i < cands.size(); ++i)
                if (pred(cands[i])) ok.push_back(i);
            if (ok.empty()) return std::nullopt;
            return take(ok[r.below(ok.size())]);
        };
        auto any = [](const Cand&) { return true; };
        auto simple_spend = [&](const Cand& c, uint32_t seq, uint32_t locktime, uint32_t version, CAmount out_delta = 0, SigDefect sd = SigDefect::NONE) {
            CAmount fee = std::min<CAmount>(c.coin.value, 1000);
            std::vector<CTxOut> outs{CTxOut(c.coin.value - fee + out_delta, kr.Spk(SK::P2WPKH, (int)r.below(N_KEYS)))};
            if (out_delta == 0) fees += fee;
            return add_tx({{c.op, c.coin, seq}}, outs, locktime, version, sd);
        };
        switch (defect) {
        case D_CB_OVERPAY: break; // handled below
        case D_IN_BELOW_OUT:
            if (auto c = one_input(any)) { CAmount fee = std::min<CAmount>(c->coin.value, 1000); simple_spend(*c, 0xffffffff, 0, 2, fee + 1); ctx.probe("defect_in_below_out"); }
            break;
        case D_OUT_TOO_LARGE:
            if (auto c = one_input(any)) { add_tx({{c->op, c->coin}}, {CTxOut(MAX_MONEY + 1, kr.Spk(SK::P2WPKH, 0))}, 0, 2); }
            break;
        case D_OUT_NEGATIVE:
            if (auto c = one_input(any)) { add_tx({{c->op, c->coin}}, {CTxOut(-1, kr.Spk(SK::P2WPKH, 0)), CTxOut(c->coin.value, kr.Spk(SK::P2WPKH, 1))}, 0, 2); }
            break;
        case D_OUT_SUM_OVERFLOW:
            if (auto c = one_input(any)) { add_tx({{c->op, c->coin}}, {CTxOut(MAX_MONEY, kr.Spk(SK::P2WPKH, 0)), CTxOut(MAX_MONEY, kr.Spk(SK::P2WPKH, 1))}, 0, 2); }
            break;
        case D_MISSING_INPUT: {
            uint256 fake;
            r.fill(fake.begin(), 32);
            RefCoin coin{50000, kr.Spk(SK::P2WPKH, 0), height - 1, false};
            add_tx({{COutPoint(Txid::FromUint256(fake), (uint32_t)r.below(2)), coin}}, {CTxOut(40000, kr.Spk(SK::P2WPKH, 1))}, 0, 2);
            break;
        }
        case D_SPENT_INPUT: {
            // a coin that existed in an ancestor's UTXO set but has been spent since
            std::optional<Cand> found;
            for (int a = P.parent, depth = 0; a >= 0 && depth < 30 && !found; a = ref->blocks[a].parent, ++depth)
                for (auto& [op, c] : *ref->blocks[a].utxo)
                    if (!view.count(op) && kr.CanSpend(c.spk)) { found = Cand{op, c}; break; }
            if (found) { simple_spend(*found, 0xffffffff, 0, 2, /*out_delta=*/-1); ctx.probe("defect_spent_input"); }
            break;
        }
        case D_LATER_IN_BLOCK:
            if (auto c = one_input(any)) {
                size_t pos = txs.size();
                CTransactionRef parent_tx = simple_spend(*c, 0xffffffff, 0, 2);
                Cand child{COutPoint(parent_tx->GetHash(), 0), RefCoin{parent_tx->vout[0].nValue, parent_tx->vout[0].scriptPubKey, height, false}};
                simple_spend(child, 0xffffffff, 0, 2);
                std::swap(txs[pos], txs.back()); // child now precedes its parent
                ctx.probe("defect_later_in_block");
            }
            break;
        case D_DUP_INPUT:
            if (auto c = one_input(any)) {
                // the same outpoint twice: adjacent [A,A], or with another input in between - preferably a sibling output of the same
                // transaction ([H:0, H:1, H:0]) - or [B,A,A]
                std::vector<TxIn> ins{{c->op, c->coin}};
                const int shape = (int)r.below(4);
                if (shape != 0) {
                    std::optional<Cand> mid;
                    for (size_t i = 0; i < cands.size() && !mid; ++i)
                        if (cands[i].op.hash == c->op.hash) mid = take(i);
                    if (mid) ctx.probe("defect_dup_input_with_sibling_between");
                    else mid = one_input(any);
                    if (mid) {
                        if (shape == 3) ins.insert(ins.begin(), TxIn{mid->op, mid->coin});
                        else ins.push_back({mid->op, mid->coin});
                    }
                }
                ins.push_back({c->op, c->coin});
                CAmount tot = 0;
                for (auto& i : ins) tot += i.coin.value;
                add_tx(ins, {CTxOut(std::min<CAmount>(tot, MAX_MONEY), kr.Spk(SK::P2WPKH, 0))}, 0, 2);
                ctx.probe("defect_dup_input");
            }
            break;
        case D_DOUBLE_SPEND_IN_BLOCK:
            if (auto c = one_input(any)) { simple_spend(*c, 0xffffffff, 0, 2); simple_spend(*c, 0xfffffffe, 0, 1); ctx.probe("defect_double_spend_in_block"); }
            break;
        case D_SPEND_UNSPENDABLE: {
            std::optional<Cand> found;
            for (int a = parent, depth = 0; a > 0 && depth < 40 && !found; a = ref->blocks[a].parent, ++depth)
                for (auto& tx : ref->blocks[a].block->vtx)
                    for (size_t o = 0; o < tx->vout.size() && !found; ++o)
                        if (RefUnspendable(tx->vout[o].scriptPubKey) && tx->vout[o].nValue > 0) found = Cand{COutPoint(tx->GetHash(), (uint32_t)o), RefCoin{tx->vout[o].nValue, kr.Spk(SK::TRUE_BARE, 0), ref->blocks[a].height, false}};
            if (found) { add_tx({{found->op, found->coin}}, {CTxOut(0, kr.Spk(SK::P2WPKH, 0))}, 0, 2); ctx.probe("defect_spend_unspendable"); }
            break;
        }
        case D_PREMATURE_CB: {
            // coinbase of the block 99 below the new block
            int a = ref->Ancestor(parent, height - 99);
            if (a > 0 && height - 99 >= 1) {
                const CTransaction& cb = *ref->blocks[a].block->vtx[0];
                COutPoint op(cb.GetHash(), 0);
                auto it = view.find(op);
                if (it != view.end() && kr.CanSpend(it->second.spk)) { simple_spend(Cand{op, it->second}, 0xffffffff, 0, 2, -1); ctx.probe("defect_premature_coinbase"); }
            }
            break;
        }
        case D_NONFINAL_HEIGHT:
        case D_NONFINAL_TIME:
            if (auto c = one_input(any)) {
                const uint32_t lt = defect == D_NONFINAL_HEIGHT ? (uint32_t)height : (uint32_t)mtp;
                std::optional<Cand> c2 = r.chance(1, 2) ? one_input(any) : std::nullopt;
                if (c2) {
                    // two inputs of which only ONE is non-final (either order): the lock time still applies
                    std::vector<TxIn> ins{{c->op, c->coin, 0xfffffffe}, {c2->op, c2->coin, 0xffffffff}};
                    if (r.chance(1, 2)) std::swap(ins[0], ins[1]);
                    CAmount tot = c->coin.value + c2->coin.value, fee = std::min<CAmount>(tot, 1000);
                    fees += fee;
                    add_tx(ins, {CTxOut(tot - fee, kr.Spk(SK::P2WPKH, (int)r.below(N_KEYS)))}, lt, 1);
                    ctx.probe("defect_nonfinal_mixed_sequences");
                } else simple_spend(*c, 0xfffffffe, lt, 1);
                ctx.probe(defect == D_NONFINAL_HEIGHT ? "defect_nonfinal_height" : "defect_nonfinal_time");
            }
            break;
        case D_BIP68_HEIGHT:
            if (auto c = one_input([&](const Cand& k) { return height - k.coin.height + 1 <= 0xffff && k.coin.height <= P.height; })) {
                static const uint32_t kVersions[] = {2, 2, 3, 0x80000002u, 0xffffffffu};
                simple_spend(*c, (uint32_t)(height - c->coin.height + 1), 0, kVersions[r.below(5)]);
                ctx.probe("defect_bip68_height");
            }
            break;
        case D_BIP68_TIME:
            if (auto c = one_input([&](const Cand& k) { return k.coin.height <= P.height; })) {
                int64_t coin_time = ref->MTP(ref->Ancestor(parent, std::max(c->coin.height - 1, 0)));
                int64_t n = (mtp - coin_time) / 512 + 1;
                if (n >= 0 && n <= 0xffff) { simple_spend(*c, (uint32_t)((1u << 22) | n), 0, r.chance(1, 3) ? 0x80000002u : 2); ctx.probe("defect_bip68_time"); }
                else simple_spend(*c, 0xffffffff, 0, 2);
            }
            break;
        case D_BAD_SIG:
            if (auto c = one_input([&](const Cand& k) { return kr.Classify(k.coin.spk).kind != SK::TRUE_BARE; })) { simple_spend(*c, 0xffffffff, 0, 2, 0, SigDefect::BAD_SIG); ctx.probe("defect_bad_sig"); }
            break;
        case D_WRONG_KEY:
            if (auto c = one_input([&](const Cand& k) { return kr.Classify(k.coin.spk).kind != SK::TRUE_BARE; })) { simple_spend(*c, 0xffffffff, 0, 2, 0, SigDefect::WRONG_KEY); ctx.probe("defect_wrong_key"); }
            break;
        case D_STRIP_WITNESS:
            if (auto c = one_input([&](const Cand& k) { auto kd = kr.Classify(k.coin.spk).kind; return kd != SK::TRUE_BARE && kd != SK::P2PKH; })) { simple_spend(*c, 0xffffffff, 0, 2, 0, SigDefect::STRIP_WITNESS); ctx.probe("defect_strip_witness"); }
            break;
        default: break;
        }
        if ((defect == D_BAD_SIG || defect == D_WRONG_KEY || defect == D_STRIP_WITNESS) && txs.size() > 1) {
            // a script-level defect goes to a random position of the block (not always last: the order in which script checks are
            // queued matters to the parallel check queue), unless it spends an output created in this block
            const CTransactionRef bad = txs.back();
            bool in_block_parent = false;
            for (const CTxIn& in : bad->vin)
                for (size_t i = 0; i + 1 < txs.size(); ++i)
                    if (txs[i]->GetHash() == in.prevout.hash) in_block_parent = true;
            if (!in_block_parent) {
                txs.pop_back();
                txs.insert(txs.begin() + r.below(txs.size() + 1), bad);
            }
        }
        switch (boundary) {
        case B_LOCKTIME_HEIGHT_OK:
            if (auto c = one_input(any)) { simple_spend(*c, 0xfffffffe, (uint32_t)(height - 1), 1); ctx.probe("boundary_locktime_height"); }
            break;
        case B_LOCKTIME_TIME_OK:
            if (auto c = one_input(any)) { simple_spend(*c, 0xfffffffe, (uint32_t)(mtp - 1), 1); ctx.probe("boundary_locktime_time"); }
            break;
        case B_BIP68_HEIGHT_OK:
            if (auto c = one_input([&](const Cand& k) { return height - k.coin.height <= 0xffff && k.coin.height <= P.height; })) {
                simple_spend(*c, (uint32_t)(height - c->coin.height), 0, 2);
                ctx.probe("boundary_bip68_height");
            }
            break;
        case B_BIP68_TIME_OK:
            if (auto c = one_input([&](const Cand& k) { return k.coin.height <= P.height; })) {
                int64_t coin_time = ref->MTP(ref->Ancestor(parent, std::max(c->coin.height - 1, 0)));
                int64_t n = (mtp - coin_time) / 512;
                if (n >= 0 && n <= 0xffff) { simple_spend(*c, (uint32_t)((1u << 22) | n), 0, 2); ctx.probe("boundary_bip68_time"); }
                else simple_spend(*c, 0xffffffff, 0, 2);
            }
            break;
        case B_CB_SPEND_100: {
            int a = ref->Ancestor(parent, height - 100);
            if (a > 0 && height - 100 >= 1) {
                const CTransaction& cb = *ref->blocks[a].block->vtx[0];
                COutPoint op(cb.GetHash(), 0);
                for (size_t i = 0; i < cands.size(); ++i)
                    if (cands[i].op == op) { simple_spend(take(i), 0xffffffff, 0, 2); ctx.probe("boundary_coinbase_depth_100"); break; }
            }
            break;
        }
        default: break;
        }
    }
    CAmount subsidy = RefSubsidy(height, ref->halving_interval);
    CAmount cb_value = subsidy + fees;
    if (defect == D_CB_OVERPAY) { cb_value += 1; ctx.probe("defect_cb_overpay"); }
    else if (boundary != B_CB_EXACT && r.chance(1, 4)) cb_value -= (CAmount)r.below((uint64_t)std::min<CAmount>(cb_value, 5000) + 1);
    if (cb_value < 0) cb_value = 0;
    if (defect == D_BAD_MERKLE) ex.bad_merkle = true;
    if (defect == D_BAD_COMMITMENT) ex.bad_witness_commitment = true;
    if (defect == D_BAD_POW) { ex.bad_pow = true; label.pow_ok = false; }
    if (defect == D_WRONG_BIP34) ex.wrong_bip34_height = true;
    if (defect == D_OLD_VERSION) { ex.version = 3; label.structure_ok = false; }
    if (defect == D_SECOND_COINBASE) {
        CMutableTransaction cb2;
        cb2.vin.resize(1);
        cb2.vin[0].prevout.SetNull();
        cb2.vin[0].scriptSig = CScript() << height << OP_1;
        cb2.vout.emplace_back(0, kr.Spk(SK::P2WPKH, 0));
        txs.push_back(MakeTransactionRef(cb2));
    }
    label.defect = DefectName(defect);
    auto block = BuildBlock(P.hash, height, time, txs, cb_value, ex, cp);
    int idx = ref->Add(block, parent, label);
    delivered.push_back(0);
    header_given.push_back(0);
    const RefBlock& B = ref->blocks[idx];
    if (B.verdict == Verdict::VALID) {
        if (height / ref->halving_interval != P.height / ref->halving_interval) ctx.probe("halving_crossed");
    } else {
        ctx.probe("model_invalid_block");
    }
    ctx.evf("mine #%d h=%d on #%d %s txs=%zu verdict=%d(%s) defect=%s", idx, height, parent, Hx(B.hash).c_str(), block->vtx.size(), (int)B.verdict, B.reason.c_str(), DefectName(defect));
    return idx;
}

int ChainSim::AddBlock(std::shared_ptr<const CBlock> block, int parent, const BlockLabel& label)
{
    if (block->GetBlockTime() > now) { now = block->GetBlockTime(); SetMockTime(std::chrono::seconds{now}); }
    int idx = ref->Add(std::move(block), parent, label);
    delivered.push_back(0);
    header_given.push_back(0);
    const RefBlock& B = ref->blocks[idx];
    ctx.evf("addblock #%d h=%d on #%d %s txs=%zu verdict=%d(%s)", idx, B.height, parent, B.hash.ToString().substr(0, 10).c_str(), B.block->vtx.size(), (int)B.verdict, B.reason.c_str());
    return idx;
}

void ChainSim::MineBase(int n)
{
    Rng r(mix64(ctx.plan.seed, 0xba5e));
    int tip = 0;
    for (int i = 0; i < n; ++i) {
        tip = MineOn(tip, 0, r.next(), D_NONE, B_NONE, 0);
        Deliver(tip, true);
    }
    if (node->Height() != n) ctx.failf("base-chain-not-connected", "height %d after %d base blocks", node->Height(), n);
}

void ChainSim::Deliver(int idx, bool force)
{
    const RefBlock& B = ref->blocks[idx];
    uint256 tip_before = node->TipHash();
    auto res = node->ProcessBlock(B.block, force);
    if (node->Fatal()) ctx.failf("node-fatal-error", "%s", node->notifications->fatal_errors.empty() ? node->notifications->flush_errors[0].c_str() : node->notifications->fatal_errors[0].c_str());
    delivered[idx] = 1;
    delivery_log.push_back({idx, force, res.accepted, res.verdict.has_value(), res.verdict ? res.verdict->valid : false, res.verdict ? (int)res.verdict->result : -1, res.verdict ? res.verdict->reason : std::string()});
    std::string v = "-";
    if (res.verdict) v = res.verdict->valid ? "valid" : ("invalid:" + res.verdict->reason);
    ctx.evf("deliver #%d force=%d -> accepted=%d new=%d verdict=%s tip=%s h=%d", idx, force, res.accepted, res.new_block, v.c_str(), Hx(node->TipHash()).c_str(), node->Height());
    if (res.verdict && !res.verdict->valid) {
        ctx.probe("node_rejected_block");
        // A model-VALID block that reached BlockChecked must not be reported invalid.
        const auto rr = res.verdict->result;
        const bool not_a_validity_verdict = rr == BlockValidationResult::BLOCK_MISSING_PREV || rr == BlockValidationResult::BLOCK_TIME_FUTURE || rr == BlockValidationResult::BLOCK_HEADER_LOW_WORK;
        if (B.verdict == Verdict::VALID && !UnderManualInvalidation(idx) && !UnderManualMaybe(idx) && !not_a_validity_verdict)
            ctx.failf("valid-block-rejected", "block #%d (h=%d, defect=%s) is valid per the model but the node reports %s", idx, B.height, B.label.defect.c_str(), res.verdict->reason.c_str());
        if (cfg.check_reject_leaves_state && node->TipHash() != tip_before) {
            // legal only if another (stored) block became the best valid tip; CheckAll decides legality of the new tip
            ctx.probe("tip_changed_on_rejected_delivery");
        }
    }
    if (res.verdict && res.verdict->valid && B.verdict != Verdict::VALID)
        ctx.failf("invalid-block-reported-valid", "block #%d (h=%d) is %s per the model (%s) but BlockChecked reports it valid", idx, B.height, B.verdict == Verdict::MUTATED ? "mutated" : "invalid", B.reason.c_str());
}

void ChainSim::CheckUtxo(const char* where)
{
    int t = TipIdx();
    if (t < 0 || ref->blocks[t].verdict != Verdict::VALID) return; // reported by CheckAll
    const RefUtxo& want = *ref->blocks[t].utxo;
    LOCK(cs_main);
    Chainstate& c = node->cs();
    c.ForceFlushStateToDisk(/*wipe_cache=*/false);
    if (c.CoinsDB().GetBestBlock() != ref->blocks[t].hash) ctx.failf("utxo-best-block-mismatch", "%s: coins DB best block %s != tip", where, Hx(c.CoinsDB().GetBestBlock()).c_str());
    std::unique_ptr<CCoinsViewCursor> cur = c.CoinsDB().Cursor();
    size_t n = 0;
    CAmount total = 0;
    for (; cur->Valid(); cur->Next()) {
        COutPoint k;
        Coin coin;
        if (!cur->GetKey(k) || !cur->GetValue(coin)) ctx.failf("utxo-cursor-error", "%s", where);
        ++n;
        total += coin.out.nValue;
        auto it = want.find(k);
        if (it == want.end()) ctx.failf("utxo-extra-coin", "%s: node has coin %s:%u (value %ld, h=%d) that the model's UTXO(tip) lacks", where, Hx(k.hash.ToUint256()).c_str(), k.n, (long)coin.out.nValue, (int)coin.nHeight);
        const RefCoin& w = it->second;
        if (coin.out.nValue != w.value || coin.out.scriptPubKey != w.spk || (int)coin.nHeight != w.height || (bool)coin.fCoinBase != w.coinbase)
            ctx.failf("utxo-coin-differs", "%s: coin %s:%u node(value=%ld,h=%d,cb=%d) model(value=%ld,h=%d,cb=%d)", where, Hx(k.hash.ToUint256()).c_str(), k.n, (long)coin.out.nValue, (int)coin.nHeight, (int)coin.fCoinBase, (long)w.value, w.height, (int)w.coinbase);
    }
    if (n != want.size()) ctx.failf("utxo-missing-coin", "%s: node has %zu coins, model %zu", where, n, want.size());
    if (cfg.check_supply) {
        CAmount cap = RefSubsidySum(ref->blocks[t].height, ref->halving_interval);
        if (total > cap) ctx.failf("supply-exceeds-subsidy-sum", "%s: UTXO total %ld > sum of subsidies %ld at height %d", where, (long)total, (long)cap, ref->blocks[t].height);
    }
    ctx.probe("utxo_compared");
    ctx.fingerprint(mix64(ref->blocks[t].hash.GetUint64(0), n));
}

void ChainSim::CheckAll(const char* where)
{
    uint256 tip = node->TipHash();
    int t = ref->Find(tip);
    if (t < 0) ctx.failf("tip-unknown-block", "%s: active tip %s is not a generated block", where, Hx(tip).c_str());
    const RefBlock& T = ref->blocks[t];
    if (T.verdict != Verdict::VALID)
        ctx.failf("invalid-block-in-active-chain", "%s: active tip #%d (h=%d) is not valid per the model: %s (first bad: see reason) defect=%s", where, t, T.height, T.reason.c_str(), T.label.defect.c_str());
    if (UnderManualInvalidation(t)) ctx.failf("tip-under-manual-invalidation", "%s: tip #%d descends from a manually invalidated block", where, t);
    {
        LOCK(cs_main);
        auto& bm = node->cm().m_blockman;
        auto have_data = [&](int i) {
            const CBlockIndex* pi = bm.LookupBlockIndex(ref->blocks[i].hash);
            return pi && (pi->nStatus & BLOCK_HAVE_DATA);
        };
        for (int i = 1; i < (int)ref->blocks.size(); ++i) {
            const RefBlock& B = ref->blocks[i];
            if (B.verdict != Verdict::VALID || UnderManualInvalidation(i) || UnderManualMaybe(i)) continue;
            const CBlockIndex* pi = bm.LookupBlockIndex(B.hash);
            if (pi && (pi->nStatus & BLOCK_FAILED_VALID))
                ctx.failf("valid-block-marked-failed", "%s: block #%d (h=%d) is valid per the model and not manually invalidated, but its index entry carries a failure flag", where, i, B.height);
            if (ref->Work(i) <= ref->Work(t)) continue;
            bool all = true;
            for (int a = i; a > 0 && !ref->IsAncestor(a, t); a = ref->blocks[a].parent)
                if (!have_data(a)) { all = false; break; }
            if (all)
                ctx.failf("not-most-work", "%s: tip #%d (h=%d) has less work than valid block #%d (h=%d) whose whole ancestry the node holds data for", where, t, T.height, i, B.height);
        }
    }
    uint64_t mi = 0;
    for (int m : manual_invalid) mi = mix64(mi, m);
    ctx.fingerprint(mix64(mix64(tip.GetUint64(0), mi), ref->blocks.size()));
}

void ChainSim::Setup()
{
    StartNode();
    MineBase((int)std::clamp<int64_t>(ctx.knob("base", 101), 1, 400));
    CheckAll("after base chain");
    start_time = now;
}

void ChainSim::ExecOp(const Op& op)
{
    const bool on_disk = ctx.knob("on_disk", 0) != 0;
    int n = (int)ref->blocks.size();
    auto sel = [&](size_t sel_arg, size_t idx_arg) {
        if (op.arg(sel_arg)) return (int)op.mod(idx_arg, n);
        return n - 1 - (int)op.mod(idx_arg, std::min(n, 8));
    };
    uint256 tip_before = node->TipHash();
    int tipidx_before = TipIdx();
    switch (op.kind) {
    case OP_MINE: {
        int parent = sel(0, 1);
        if (!op.arg(0)) {
            // "recent": prefer the node's current tip most of the time so that chains grow
            int k = (int)op.mod(1, 4);
            if (k <= 1 && tipidx_before >= 0) parent = tipidx_before;
        }
        int idx = MineOn(parent, (int)std::clamp<int64_t>(op.arg(2), 0, 12), (uint64_t)op.arg(3), (int)op.mod(4, D_NDEFECTS), (int)op.mod(5, B_NBOUNDARY), (int)op.mod(6, 3));
        int mode = (int)op.mod(7, 3);
        if (mode == 1) Deliver(idx, true);
        else if (mode == 2) {
            BlockValidationState st;
            bool ok = node->ProcessHeaders({static_cast<const CBlockHeader&>(*ref->blocks[idx].block)}, st);
            header_given[idx] = 1;
            ctx.evf("header #%d -> %d %s", idx, ok, st.GetRejectReason().c_str());
        }
        break;
    }
    case OP_DELIVER: {
        int idx = sel(0, 1);
        if (idx == 0) break;
        int times = (int)std::clamp<int64_t>(op.arg(3), 1, 3);
        for (int k = 0; k < times; ++k) Deliver(idx, op.arg(2) != 0);
        if (times > 1) ctx.probe("duplicate_delivery");
        break;
    }
    case OP_HEADER: {
        int idx = sel(0, 1);
        if (idx == 0) break;
        BlockValidationState st;
        bool ok = node->ProcessHeaders({static_cast<const CBlockHeader&>(*ref->blocks[idx].block)}, st);
        header_given[idx] = 1;
        ctx.evf("header #%d -> %d %s", idx, ok, st.GetRejectReason().c_str());
        break;
    }
    case OP_INVALIDATE: {
        int idx = sel(0, 1);
        if (idx == 0) break;
        // keep manual invalidations an antichain (no nesting), see DESIGN C08 guards
        bool related = false;
        for (int m : manual_invalid)
            if (ref->IsAncestor(m, idx) || ref->IsAncestor(idx, m)) related = true;
        for (int m : manual_maybe)
            if (ref->IsAncestor(m, idx) || ref->IsAncestor(idx, m)) related = true;
        if (related) break;
        CBlockIndex* pi = WITH_LOCK(cs_main, return node->cm().m_blockman.LookupBlockIndex(ref->blocks[idx].hash));
        if (!pi) break;
        BlockValidationState st;
        bool ok = node->cs().InvalidateBlock(st, pi);
        BlockValidationState st2;
        node->cs().ActivateBestChain(st2);
        node->DrainSignals();
        manual_invalid.insert(idx);
        ctx.probe("invalidateblock");
        ctx.evf("invalidate #%d -> %d tip=%s h=%d", idx, ok, Hx(node->TipHash()).c_str(), node->Height());
        int t = TipIdx();
        if (t >= 0 && ref->IsAncestor(idx, t)) ctx.failf("tip-still-on-invalidated-block", "after invalidateblock(#%d) the tip #%d still descends from it", idx, t);
        break;
    }
    case OP_RECONSIDER: {
        if (manual_invalid.empty()) break;
        auto it = manual_invalid.begin();
        std::advance(it, op.mod(0, manual_invalid.size()));
        const int x = *it;
        // reconsiderblock clears the named block, its ancestors and its descendants: name the invalidated block itself (half of the
        // time), one of its ancestors, or one of its descendants the node knows (possibly only by header)
        int idx = x;
        const int mode = op.a.size() > 1 ? (int)op.mod(1, 6) : 0;
        if (mode == 3 || mode == 4) {
            int up = 1 + (int)op.mod(2, mode == 3 ? 2 : 12);
            for (; up > 0 && ref->blocks[idx].parent > 0; --up) idx = ref->blocks[idx].parent;
        } else if (mode == 5) {
            std::vector<int> desc;
            for (int c = 1; c < (int)ref->blocks.size(); ++c)
                if (c != x && ref->IsAncestor(x, c) && (delivered[c] || header_given[c])) desc.push_back(c);
            if (!desc.empty()) idx = desc[op.mod(2, desc.size())];
        }
        CBlockIndex* pi = WITH_LOCK(cs_main, return node->cm().m_blockman.LookupBlockIndex(ref->blocks[idx].hash));
        if (!pi) break;
        {
            LOCK(cs_main);
            node->cs().ResetBlockFailureFlags(pi);
            node->cm().RecalculateBestHeader();
        }
        BlockValidationState st;
        node->cs().ActivateBestChain(st);
        node->DrainSignals();
        ModelReconsider(idx);
        ctx.probe("reconsiderblock");
        if (idx != x) ctx.probe(ref->IsAncestor(idx, x) ? "reconsider_via_ancestor" : "reconsider_via_descendant");
        ctx.evf("reconsider #%d (invalidated #%d) tip=%s h=%d", idx, x, Hx(node->TipHash()).c_str(), node->Height());
        break;
    }
    case OP_RESTART: {
        if (!on_disk) break;
        node->Stop(/*clean=*/true);
        if (on_full_flush) on_full_flush(0);
        if (!node->Start()) ctx.failf("restart-failed", "clean restart failed: %s", node->last_error.c_str());
        if (on_node_started) on_node_started();
        ctx.probe("clean_restart");
        ctx.evf("restart tip=%s h=%d", Hx(node->TipHash()).c_str(), node->Height());
        if (node->TipHash() != tip_before) {
            // a clean restart may legitimately move to another equal-or-better tip only if CheckAll agrees; but it must not lose work
            int t = TipIdx();
            if (t >= 0 && tipidx_before >= 0 && ref->Work(t) < ref->Work(tipidx_before)) ctx.failf("restart-lost-work", "tip work went from %d to %d across a clean restart", ref->Work(tipidx_before), ref->Work(t));
        }
        break;
    }
    case OP_FLUSH: {
        LOCK(cs_main);
        BlockValidationState st;
        int mode = (int)op.mod(0, 4);
        if (mode == 0) node->cs().ForceFlushStateToDisk(true);
        else if (mode == 1) node->cs().ForceFlushStateToDisk(false);
        else if (mode == 2) node->cs().FlushStateToDisk(st, FlushStateMode::PERIODIC);
        else node->cs().FlushStateToDisk(st, FlushStateMode::IF_NEEDED);
        if (mode <= 1 && on_full_flush) on_full_flush(mode);
        ctx.evf("flush %d", mode);
        break;
    }
    case OP_CLOCK:
        now += std::clamp<int64_t>(op.arg(0), 1, 100000);
        SetMockTime(std::chrono::seconds{now});
        ctx.evf("clock+%ld", (long)op.arg(0));
        break;
    case OP_CHECK_UTXO:
        CheckUtxo("explicit check");
        break;
    case OP_REORG: {
        // build a competing branch from an ancestor of the tip that overtakes it, then deliver it (in order, reversed, or tip-first twice)
        if (tipidx_before < 0) break;
        int depth = (int)std::clamp<int64_t>(op.arg(0), 1, 8);
        int fork = ref->Ancestor(tipidx_before, std::max(0, ref->blocks[tipidx_before].height - depth));
        int len = ref->blocks[tipidx_before].height - ref->blocks[fork].height + (int)std::clamp<int64_t>(op.arg(1), 1, 3);
        std::vector<int> branch;
        int parent = fork;
        Rng r(mix64((uint64_t)op.arg(3), 0x72656f));
        for (int i = 0; i < len; ++i) {
            parent = MineOn(parent, (int)std::clamp<int64_t>(op.arg(2), 0, 8), r.next(), D_NONE, B_NONE, 0);
            branch.push_back(parent);
        }
        int order = (int)op.mod(4, 3);
        if (order == 1) std::reverse(branch.begin(), branch.end());
        for (int b : branch) Deliver(b, true);
        if (order == 1) { std::reverse(branch.begin(), branch.end()); for (int b : branch) Deliver(b, true); }
        ctx.probe("reorg_op");
        break;
    }
    }
    if (node->Fatal()) ctx.failf("node-fatal-error", "%s", node->notifications->fatal_errors.empty() ? node->notifications->flush_errors[0].c_str() : node->notifications->fatal_errors[0].c_str());
    CheckAll(DescribeChainOp(op).c_str());
    uint256 tip_after = node->TipHash();
    if (tip_after != tip_before) {
        int ta = TipIdx();
        if (ta >= 0 && tipidx_before >= 0 && !ref->IsAncestor(tipidx_before, ta)) {
            ++reorgs;
            ctx.probe("reorg");
            int fork = ref->ForkPoint(tipidx_before, ta);
            if (ref->blocks[tipidx_before].height - ref->blocks[fork].height >= 3) ctx.probe("reorg_depth_ge_3");
        }
        if (cfg.check_utxo_equal) CheckUtxo("after tip change");
        ctx.nontrivial = true;
    } else if (cfg.check_reject_leaves_state && op.kind == OP_DELIVER) {
        if (cfg.check_utxo_equal && (op.arg(1) & 3) == 0) CheckUtxo("after delivery without tip change");
    }
}

void ChainSim::Finish()
{
    if (cfg.check_utxo_equal || cfg.check_supply) CheckUtxo("end of run");
    ctx.sim_ms = (uint64_t)(now - start_time) * 1000;
    node->Stop(true);
}

void ChainSim::Run()
{
    Setup();
    for (const Op& op : ctx.plan.ops) ExecOp(op);
    Finish();
}

} // namespace nodesim
