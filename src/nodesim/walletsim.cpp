#include "walletsim.h"

#include "../core/rng.h"

#include <key.h>
#include <key_io.h>
#include <net.h>
#include <net_processing.h>
#include <node/types.h>
#include <script/descriptor.h>
#include <script/interpreter.h>
#include <script/signingprovider.h>
#include <util/result.h>
#include <util/translation.h>
#include <validation.h>
#include <wallet/coincontrol.h>
#include <wallet/db.h>
#include <wallet/scriptpubkeyman.h>
#include <wallet/spend.h>
#include <wallet/walletdb.h>
#include <wallet/walletutil.h>

#include <algorithm>
#include <cstdlib>
#include <deque>
#include <new>
#include <stdexcept>

#include <pthread.h>
#include <sys/syscall.h>
#include <unistd.h>

// ---------------------------------------------------------------------------------------------------------------------------
// Deterministic addresses for DescriptorScriptPubKeyMan objects (see "Determinism" in walletsim.h).
// Weak replacements of the global operator new/delete: while at least one WalletNode exists (and the allocator has not been
// switched off), allocations of exactly sizeof(wallet::DescriptorScriptPubKeyMan) are served from a slot array, lowest free slot
// first; every other allocation, and every allocation while no WalletNode exists, goes to malloc/free exactly as the default
// operator new/delete do. Slot pointers are recognised by their address range, so they are released correctly at any time.
// (Weak: should another translation unit ever define the replaceable operator new, that definition wins and the wallet objects
// simply come from the heap again.) Single-threaded harness: the slot table is not locked.
namespace nodesim_spkm_slots {
constexpr size_t kObj = sizeof(wallet::DescriptorScriptPubKeyMan);
constexpr size_t kSlot = (kObj + 63) & ~size_t{63};
constexpr size_t kSlots = 1024;
alignas(64) static unsigned char g_buf[kSlot * kSlots];
static bool g_busy[kSlots];
static int g_wallet_nodes = 0;
static bool g_enabled = true;
static uint64_t g_served = 0;
inline bool Owns(const void* p) { return p >= (const void*)g_buf && p < (const void*)(g_buf + sizeof g_buf); }
inline void* Take()
{
    for (size_t i = 0; i < kSlots; ++i)
        if (!g_busy[i]) { g_busy[i] = true; ++g_served; return g_buf + i * kSlot; }
    return nullptr; // table full: fall back to the heap
}
inline void Give(void* p) { g_busy[((unsigned char*)p - g_buf) / kSlot] = false; }
} // namespace nodesim_spkm_slots

__attribute__((weak)) void* operator new(std::size_t n)
{
    namespace S = nodesim_spkm_slots;
    if (n == S::kObj && S::g_wallet_nodes > 0 && S::g_enabled)
        if (void* p = S::Take()) return p;
    if (n == 0) n = 1;
    for (;;) {
        if (void* p = std::malloc(n)) return p;
        std::new_handler h = std::get_new_handler();
        if (!h) throw std::bad_alloc();
        h();
    }
}
__attribute__((weak)) void operator delete(void* p) noexcept
{
    if (nodesim_spkm_slots::Owns(p)) { nodesim_spkm_slots::Give(p); return; }
    std::free(p);
}
__attribute__((weak)) void operator delete(void* p, std::size_t) noexcept
{
    if (nodesim_spkm_slots::Owns(p)) { nodesim_spkm_slots::Give(p); return; }
    std::free(p);
}

namespace nodesim {

void EnableSpkmSlotAllocator(bool on) { nodesim_spkm_slots::g_enabled = on; }
uint64_t SpkmSlotAllocations() { return nodesim_spkm_slots::g_served; }

namespace {

/** node::BroadcastTransaction asserts node.peerman; relaying to peers is all it wants from it. There are no peers here. */
class StubPeerManager final : public PeerManager
{
public:
    util::Expected<void, std::string> FetchBlock(NodeId, const CBlockIndex&) override { return util::Unexpected{std::string("no peers in walletsim")}; }
    void StartScheduledTasks(CScheduler&) override {}
    bool GetNodeStateStats(NodeId, CNodeStateStats&) const override { return false; }
    std::vector<node::TxOrphanage::OrphanInfo> GetOrphanTransactions() override { return {}; }
    PeerManagerInfo GetInfo() const override { return {}; }
    std::vector<PrivateBroadcast::TxBroadcastInfo> GetPrivateBroadcastInfo() const override { return {}; }
    std::vector<CTransactionRef> AbortPrivateBroadcast(const uint256&) override { return {}; }
    void InitiateTxBroadcastToAll(const Wtxid&) override { ++broadcasts; }
    node::TransactionError InitiateTxBroadcastPrivate(const CTransactionRef&) override { return node::TransactionError::OK; }
    void SendPings() override {}
    void SetBestBlock(int, std::chrono::seconds) override {}
    void UnitTestMisbehaving(NodeId) override {}
    void CheckForStaleTipAndEvictPeers() override {}
    void UpdateLastBlockAnnounceTime(NodeId, int64_t) override {}
    ServiceFlags GetDesirableServiceFlags(ServiceFlags) const override { return NODE_NONE; }
    // NetEventsInterface
    void InitializeNode(const CNode&, ServiceFlags) override {}
    void FinalizeNode(const CNode&) override {}
    bool HasAllDesirableServiceFlags(ServiceFlags) const override { return false; }
    bool ProcessMessages(CNode&, std::atomic<bool>&) override { return false; }
    bool SendMessages(CNode&) override { return false; }
    uint64_t broadcasts{0};
};

/** See MakeDeferredTaskRunner() in walletsim.h. */
class DeferredTaskRunner final : public util::TaskRunnerInterface
{
    std::deque<std::function<void()>> m_queue;
    bool m_running{false};

    /** Does the calling thread hold cs_main? (glibc: a locked recursive mutex records its owner's tid.) */
    static bool MainLockHeld()
    {
        pthread_mutex_t* m = ::cs_main.native_handle();
        return m->__data.__owner != 0 && m->__data.__owner == (int)syscall(SYS_gettid);
    }
    void Drain()
    {
        if (m_running) return; // a callback enqueued something: the loop below picks it up
        struct Guard { bool& b; explicit Guard(bool& x) : b(x) { b = true; } ~Guard() { b = false; } } guard(m_running);
        while (!m_queue.empty()) {
            std::function<void()> f = std::move(m_queue.front());
            m_queue.pop_front();
            f();
        }
    }

public:
    void insert(std::function<void()> func) override
    {
        m_queue.push_back(std::move(func));
        if (!MainLockHeld()) Drain();
    }
    void flush() override { Drain(); }
    size_t size() override { return m_queue.size(); }
};

std::string Join(const std::vector<bilingual_str>& v)
{
    std::string s;
    for (auto& b : v) { if (!s.empty()) s += "; "; s += b.original; }
    return s;
}

} // namespace

std::unique_ptr<util::TaskRunnerInterface> MakeDeferredTaskRunner()
{
    return std::make_unique<DeferredTaskRunner>();
}

WalletNode::WalletNode(SimNode& node, WalletNodeOpts opts) : m_node(node), m_opts(std::move(opts))
{
    ++nodesim_spkm_slots::g_wallet_nodes;
    m_walletdir = m_opts.walletdir.empty() ? fs::PathFromString(m_node.opts.dir) / "wallets" : fs::PathFromString(m_opts.walletdir);
    fs::create_directories(m_walletdir);
    m_args.ForceSetArg("-keypool", std::to_string(std::max(1, m_opts.keypool)));
    m_args.ForceSetArg("-walletbroadcast", m_opts.broadcast ? "1" : "0");
    m_args.ForceSetArg("-spendzeroconfchange", m_opts.spend_zero_conf_change ? "1" : "0");
    m_args.ForceSetArg("-fallbackfee", m_opts.fallbackfee);
    for (auto& [k, v] : m_opts.extra_args) m_args.ForceSetArg(k, v);
    if (m_node.Running()) Attach();
}

WalletNode::~WalletNode()
{
    Detach();
    --nodesim_spkm_slots::g_wallet_nodes;
}

void WalletNode::Attach()
{
    if (Attached()) return;
    if (!m_node.Running()) throw std::runtime_error("WalletNode::Attach: SimNode is not running");
    m_ctx = std::make_unique<node::NodeContext>();
    // borrowed (released again in Detach)
    m_ctx->chainman.reset(m_node.chainman.get());
    m_ctx->mempool.reset(m_node.mempool.get());
    m_ctx->validation_signals.reset(m_node.signals.get());
    // owned
    m_ctx->peerman = std::make_unique<StubPeerManager>();
    m_ctx->args = &m_args;
    m_ctx->shutdown_signal = &m_node.interrupt;
    m_chain = interfaces::MakeChain(*m_ctx);
    m_wctx = std::make_unique<wallet::WalletContext>();
    m_wctx->chain = m_chain.get();
    m_wctx->args = &m_args;
}

void WalletNode::Detach()
{
    if (!Attached()) return;
    {
        std::vector<std::shared_ptr<wallet::CWallet>> all = Wallets();
        while (!all.empty()) {
            std::shared_ptr<wallet::CWallet> p = std::move(all.back());
            all.pop_back();
            try {
                UnloadWallet(p);
            } catch (const std::exception&) {
                // somebody still holds a reference (e.g. while a violation unwinds the stack): the wallet is already detached from the
                // chain and the context; it is destroyed when that reference goes away
            }
        }
    }
    m_wctx.reset();
    m_chain.reset();
    (void)m_ctx->chainman.release();
    (void)m_ctx->mempool.release();
    (void)m_ctx->validation_signals.release();
    m_ctx.reset();
}

std::vector<std::shared_ptr<wallet::CWallet>> WalletNode::Wallets()
{
    if (!m_wctx) return {};
    return wallet::GetWallets(*m_wctx);
}

std::shared_ptr<wallet::CWallet> WalletNode::Get(const std::string& name)
{
    if (!m_wctx) return nullptr;
    return wallet::GetWallet(*m_wctx, name);
}

std::shared_ptr<wallet::CWallet> WalletNode::Finish(std::shared_ptr<wallet::CWallet> w)
{
    wallet::NotifyWalletLoaded(*m_wctx, w);
    wallet::AddWallet(*m_wctx, w);
    w->postInitProcess();
    m_node.DrainSignals();
    return w;
}

std::shared_ptr<wallet::CWallet> WalletNode::CreateWallet(const std::string& name, const WalletCreateOpts& co)
{
    last_error.clear();
    last_warnings.clear();
    if (!Attached()) { last_error = "not attached"; return nullptr; }
    try {
        wallet::DatabaseOptions o;
        o.require_create = true;
        o.require_format = wallet::DatabaseFormat::SQLITE;
        o.use_unsafe_sync = m_opts.unsafe_sync;
        uint64_t flags = wallet::WALLET_FLAG_DESCRIPTORS | co.extra_flags;
        const bool own_seed = !co.random_seed && !co.blank && !(flags & wallet::WALLET_FLAG_DISABLE_PRIVATE_KEYS);
        // blank at creation: CreateNew must not call SetupWalletGeneration (GetStrongRandBytes); the flag is cleared again by
        // SetupDescriptorGeneration (UnsetBlankWalletFlag) when the descriptors are added below
        uint64_t create_flags = flags | ((own_seed || co.blank) ? wallet::WALLET_FLAG_BLANK_WALLET : 0);
        o.create_flags = create_flags;
        wallet::DatabaseStatus status;
        bilingual_str error;
        std::vector<bilingual_str> warnings;
        std::unique_ptr<wallet::WalletDatabase> db = wallet::MakeDatabase(WalletPath(name), o, status, error);
        if (!db) { last_error = "MakeDatabase: " + error.original; return nullptr; }
        std::shared_ptr<wallet::CWallet> w = wallet::CWallet::CreateNew(*m_wctx, name, std::move(db), create_flags, /*born_encrypted=*/false, error, warnings);
        for (auto& x : warnings) last_warnings.push_back(x.original);
        if (!w) { last_error = "CreateNew: " + error.original; return nullptr; }
        if (own_seed) {
            unsigned char seed[32];
            sim::Rng r(sim::mix64(co.seed, 0x77616c6c6574ULL));
            r.fill(seed, sizeof seed);
            CExtKey master;
            master.SetSeed(MakeByteSpan(seed));
            LOCK(w->cs_wallet);
            bool ok = wallet::RunWithinTxn(w->GetDatabase(), "setup descriptors", [&](wallet::WalletBatch& batch) EXCLUSIVE_LOCKS_REQUIRED(w->cs_wallet) {
                w->SetupDescriptorScriptPubKeyMans(batch, master);
                return true;
            });
            if (!ok) { last_error = "descriptor setup transaction failed"; return nullptr; }
        }
        w->TopUpKeyPool();
        if (!co.passphrase.empty() && !w->EncryptWallet(co.passphrase)) { last_error = "EncryptWallet failed"; return nullptr; }
        return Finish(std::move(w));
    } catch (const std::exception& e) {
        last_error = std::string("exception: ") + e.what();
        return nullptr;
    }
}

std::shared_ptr<wallet::CWallet> WalletNode::LoadWallet(const std::string& name)
{
    last_error.clear();
    last_warnings.clear();
    if (!Attached()) { last_error = "not attached"; return nullptr; }
    try {
        wallet::DatabaseOptions o;
        o.require_existing = true;
        o.use_unsafe_sync = m_opts.unsafe_sync;
        wallet::DatabaseStatus status;
        bilingual_str error;
        std::vector<bilingual_str> warnings;
        std::unique_ptr<wallet::WalletDatabase> db = wallet::MakeDatabase(WalletPath(name), o, status, error);
        if (!db) { last_error = "MakeDatabase: " + error.original; return nullptr; }
        std::shared_ptr<wallet::CWallet> w = wallet::CWallet::LoadExisting(*m_wctx, name, std::move(db), error, warnings);
        for (auto& x : warnings) last_warnings.push_back(x.original);
        if (!w) { last_error = "LoadExisting: " + error.original; return nullptr; }
        return Finish(std::move(w));
    } catch (const std::exception& e) {
        last_error = std::string("exception: ") + e.what();
        return nullptr;
    }
}

void WalletNode::UnloadWallet(std::shared_ptr<wallet::CWallet>& w)
{
    if (!w) return;
    m_node.DrainSignals();
    wallet::RemoveWallet(*m_wctx, w, /*load_on_start=*/std::nullopt);
    if (w.use_count() != 1) throw std::runtime_error("WalletNode::UnloadWallet: wallet '" + w->GetName() + "' is still referenced elsewhere");
    w.reset(); // FlushAndDeleteWallet: ~CWallet closes the database
}

std::optional<CTxDestination> WalletNode::NewAddress(wallet::CWallet& w, OutputType type, const std::string& label)
{
    auto r = w.GetNewDestination(type, label);
    if (!r) { last_error = util::ErrorString(r).original; return std::nullopt; }
    return *r;
}

std::optional<CTxDestination> WalletNode::NewChangeAddress(wallet::CWallet& w, OutputType type)
{
    auto r = w.GetNewChangeDestination(type);
    if (!r) { last_error = util::ErrorString(r).original; return std::nullopt; }
    return *r;
}

CScript WalletNode::ScriptFor(const CTxDestination& d) { return GetScriptForDestination(d); }

CTxDestination WalletNode::DestFor(const CScript& spk)
{
    CTxDestination d;
    if (!ExtractDestination(spk, d)) return CNoDestination{spk};
    return d;
}

bool WalletNode::ImportDescriptor(wallet::CWallet& w, const std::string& descriptor, bool active, bool internal, int32_t range_start, int32_t range_end,
                                  int32_t next_index, int64_t timestamp, const std::string& label)
{
    FlatSigningProvider keys;
    std::string error;
    auto parsed = Parse(descriptor, keys, error, /*require_checksum=*/false);
    if (parsed.size() != 1) { last_error = "Parse: " + (error.empty() ? std::string("multipath descriptors not supported here") : error); return false; }
    const bool ranged = parsed[0]->IsRange();
    if (!ranged) { range_start = 0; range_end = 1; next_index = 0; }
    wallet::WalletDescriptor wd(std::move(parsed[0]), (uint64_t)timestamp, range_start, range_end, next_index);
    LOCK(w.cs_wallet);
    auto res = w.AddWalletDescriptor(wd, keys, label, internal);
    if (!res) { last_error = util::ErrorString(res).original; return false; }
    if (active) {
        auto type = wd.descriptor->GetOutputType();
        if (!type || !ranged) { last_error = "descriptor cannot be active"; return false; }
        w.AddActiveScriptPubKeyMan(res->get().GetID(), *type, internal);
    }
    return true;
}

std::set<CScript> WalletNode::AllScripts(wallet::CWallet& w)
{
    std::set<CScript> out;
    LOCK(w.cs_wallet);
    for (wallet::ScriptPubKeyMan* spkm : w.GetAllScriptPubKeyMans()) {
        if (auto* d = dynamic_cast<wallet::DescriptorScriptPubKeyMan*>(spkm)) {
            for (const CScript& s : d->GetScriptPubKeys()) out.insert(s);
        }
    }
    return out;
}

SendResult WalletNode::CreateTx(wallet::CWallet& w, const SendSpec& spec)
{
    SendResult r;
    try {
        wallet::CCoinControl cc;
        cc.m_feerate = spec.feerate;
        cc.fOverrideFeeRate = spec.override_feerate;
        cc.m_allow_other_inputs = spec.allow_other_inputs;
        cc.m_include_unsafe_inputs = spec.include_unsafe;
        cc.m_min_depth = spec.min_depth;
        cc.m_change_type = spec.change_type;
        cc.destChange = spec.change_dest;
        cc.m_signal_bip125_rbf = spec.signal_rbf;
        cc.m_locktime = spec.locktime;
        cc.m_version = spec.version;
        cc.m_avoid_partial_spends = spec.avoid_partial_spends;
        for (const COutPoint& op : spec.preset_inputs) cc.Select(op);
        auto res = wallet::CreateTransaction(w, spec.recipients, spec.change_pos, cc, spec.sign);
        if (!res) { r.error = util::ErrorString(res).original; return r; }
        r.ok = true;
        r.tx = res->tx;
        r.fee = res->fee;
        r.change_pos = res->change_pos;
    } catch (const std::exception& e) {
        r.ok = false;
        r.error = std::string("exception: ") + e.what();
    }
    return r;
}

void WalletNode::Commit(wallet::CWallet& w, const CTransactionRef& tx, std::optional<Txid> replaces)
{
    w.CommitTransaction(tx, replaces);
    m_node.DrainSignals();
}

SendResult WalletNode::Send(wallet::CWallet& w, const SendSpec& spec)
{
    SendResult r = CreateTx(w, spec);
    if (r.ok) Commit(w, r.tx);
    return r;
}

bool WalletNode::PartialSign(wallet::CWallet& w, CMutableTransaction& mtx, const std::map<COutPoint, Coin>& coins)
{
    std::map<int, bilingual_str> input_errors;
    return w.SignTransaction(mtx, coins, SIGHASH_DEFAULT, input_errors);
}

bool WalletNode::Abandon(wallet::CWallet& w, const Txid& txid)
{
    if (!w.TransactionCanBeAbandoned(txid)) return false;
    return w.AbandonTransaction(txid);
}

void WalletNode::Resubmit(wallet::CWallet& w, bool force)
{
    w.ResubmitWalletTransactions(node::TxBroadcast::MEMPOOL_NO_BROADCAST, force);
    m_node.DrainSignals();
}

bool WalletNode::Rescan(wallet::CWallet& w, int start_height)
{
    std::optional<int> tip = m_chain->getHeight();
    if (!tip) return false;
    start_height = std::clamp(start_height, 0, *tip);
    wallet::WalletRescanReserver reserver(w);
    if (!reserver.reserve()) return false;
    // the reserver's clock only paces progress log lines; pin it so that nothing depends on the real steady clock
    reserver.setNow([] { return std::chrono::steady_clock::time_point{}; });
    uint256 start = m_chain->getBlockHash(start_height);
    auto res = w.ScanForWalletTransactions(start, start_height, /*max_height=*/{}, reserver, /*save_progress=*/false);
    m_node.DrainSignals();
    return res.status == wallet::CWallet::ScanResult::SUCCESS;
}

bool WalletNode::Encrypt(wallet::CWallet& w, const SecureString& passphrase)
{
    return w.EncryptWallet(passphrase);
}

wallet::Balance WalletNode::GetBalance(wallet::CWallet& w, bool include_nonmempool, int min_depth, bool avoid_reuse)
{
    return wallet::GetBalance(w, min_depth, avoid_reuse, include_nonmempool);
}

std::vector<WalletCoin> WalletNode::AvailableCoins(wallet::CWallet& w, bool include_unsafe, bool include_immature, int min_depth, bool skip_locked)
{
    wallet::CCoinControl cc;
    cc.m_include_unsafe_inputs = include_unsafe;
    cc.m_min_depth = min_depth;
    wallet::CoinFilterParams fp;
    fp.include_immature_coinbase = include_immature;
    fp.skip_locked = skip_locked;
    std::vector<WalletCoin> out;
    LOCK(w.cs_wallet);
    for (const wallet::COutput& c : wallet::AvailableCoins(w, &cc, /*feerate=*/std::nullopt, fp).All())
        out.push_back(WalletCoin{c.outpoint, c.txout, c.depth, c.safe, c.from_me, c.solvable});
    std::sort(out.begin(), out.end());
    return out;
}

bool WalletNode::InMempool(const Txid& txid)
{
    return m_node.mempool && m_node.mempool->exists(txid);
}

std::string WalletNode::TxStateString(wallet::CWallet& w, const Txid& txid)
{
    LOCK(w.cs_wallet);
    const wallet::CWalletTx* wtx = w.GetWalletTx(txid);
    if (!wtx) return "absent";
    std::string s;
    if (auto* c = wtx->state<wallet::TxStateConfirmed>()) s = "Confirmed(h=" + std::to_string(c->confirmed_block_height) + ",i=" + std::to_string(c->position_in_block) + ")";
    else if (wtx->state<wallet::TxStateInMempool>()) s = "InMempool";
    else if (auto* b = wtx->state<wallet::TxStateBlockConflicted>()) s = "BlockConflicted(h=" + std::to_string(b->conflicting_block_height) + ")";
    else if (auto* i = wtx->state<wallet::TxStateInactive>()) s = std::string("Inactive(abandoned=") + (i->abandoned ? "1" : "0") + ")";
    else s = "Unrecognized";
    if (!wtx->mempool_conflicts.empty()) s += " mempool_conflicts=" + std::to_string(wtx->mempool_conflicts.size());
    return s;
}

std::vector<Txid> WalletNode::WalletTxids(wallet::CWallet& w)
{
    std::vector<Txid> v;
    LOCK(w.cs_wallet);
    for (auto& [id, wtx] : w.mapWallet) v.push_back(id);
    std::sort(v.begin(), v.end());
    return v;
}

} // namespace nodesim
