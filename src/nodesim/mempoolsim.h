// mempoolsim — shared mempool-history workload of nodesim: seeded submissions (single transactions of many shapes,
// packages, replacements aimed at the fee thresholds, TRUC / dust topologies, invalid and non-standard ones), prioritisation,
// blocks that confirm a subset of the mempool and conflict with the rest, reorgs, clock jumps past expiry, small size limits
// so that trimming fires, templates. Properties attach oracles through hooks; the C22 consistency oracle is built in.
#pragma once

#include "chainsim.h"

#include <policy/packages.h>
#include <validation.h>

#include <functional>
#include <map>
#include <optional>
#include <set>

namespace nodesim {

enum MempoolOp { MP_TX = 200, MP_PKG, MP_PRIO, MP_MINE, MP_REORG, MP_CLOCK, MP_TEMPLATE, MP_RESUBMIT, MP_TIPDOWN, MP_NOPS_END };

enum TxShape { TS_SIMPLE = 0, TS_CHAIN, TS_FANIN, TS_FANOUT, TS_CONFLICT, TS_TRUC, TS_DUSTY_PARENT, TS_BELOW_MINFEE, TS_NONSTANDARD, TS_INVALID, TS_WITNESS_VARIANT, TS_NSHAPES };
enum PkgShape { PS_CHILD_WITH_PARENTS = 0, PS_CPFP, PS_UNSORTED, PS_DUPLICATE, PS_INTERNAL_CONFLICT, PS_GRANDPARENT, PS_TWO_CHILDREN, PS_TOO_MANY, PS_PARENT_IN_MEMPOOL, PS_SINGLE, PS_CONFLICTS_MEMPOOL, PS_NSHAPES };

struct SnapEntry {
    CTransactionRef tx;
    CAmount base_fee{0};
    CAmount modified_fee{0};
    int64_t vsize{0};
    int64_t time{0};
};
using MempoolSnap = std::map<Txid, SnapEntry>;

struct SubmitRecord {
    bool is_package{false};
    bool test_accept{false};
    std::vector<CTransactionRef> txs;                 //!< what was submitted (1 for single)
    int shape{0};
    // single-tx result
    MempoolAcceptResult::ResultType result_type{MempoolAcceptResult::ResultType::INVALID};
    TxValidationResult tx_result{TxValidationResult::TX_RESULT_UNSET};
    std::string reject_reason;
    std::vector<Txid> replaced;
    std::optional<int64_t> vsize;
    std::optional<CAmount> base_fees;
    // package result
    PackageValidationResult pkg_result{PackageValidationResult::PCKG_RESULT_UNSET};
    std::string pkg_reason;
    std::map<Wtxid, std::pair<MempoolAcceptResult::ResultType, std::string>> pkg_tx_results;
    // state around the call
    MempoolSnap before, after;
    std::vector<FeePerWeight> diagram_before, diagram_after;
    uint64_t usage_before{0}, usage_after{0};
    CFeeRate minfee_before, minfee_after;
};

struct MempoolSimConfig {
    bool check_consistency{true};   //!< C22 oracle after every op
    bool snapshots{false};          //!< fill SubmitRecord::before/after and diagrams (C26/C27/C28/C29)
    std::string bias;               //!< generator bias, for probes only
};

sim::Plan GenMempoolPlan(uint64_t seed, sim::Tier tier, const std::string& bias);
std::string DescribeMempoolOp(const sim::Op& op);

class MempoolSim
{
public:
    sim::Ctx& ctx;
    MempoolSimConfig cfg;
    ChainSim cs;
    /** everything the generator ever built: label = consensus script validity assuming the coins it meant to spend */
    struct TxInfo { CTransactionRef tx; bool scripts_ok{true}; bool meant_standard{true}; int shape{0}; };
    std::map<Txid, TxInfo> made;
    std::vector<Txid> made_order;
    bool any_disconnect{false};     //!< a block was disconnected in this history (C27's TRUC clause excludes those)

    std::function<void(const SubmitRecord&)> after_submit;
    std::function<void(const sim::Op&)> after_op;
    std::function<void(const sim::Op&)> on_template;

    MempoolSim(sim::Ctx& c, MempoolSimConfig cf) : ctx(c), cfg(cf), cs(c, ChainSimConfig{}) {}
    void Run();
    void Setup();
    void ExecOp(const sim::Op& op);
    void Finish();

    SimNode& node() { return *cs.node; }
    CTxMemPool& pool() { return cs.node->pool(); }
    int TipIdx() { return cs.TipIdx(); }
    const RefUtxo& TipUtxo() { return *cs.ref->blocks[cs.TipIdx()].utxo; }

    MempoolSnap Snapshot();
    /** C22 oracle: consistency and next-block validity of the whole mempool, from its public contents and the model. */
    void CheckConsistency(const char* where);
    SubmitRecord SubmitTx(const CTransactionRef& tx, bool test_accept, int shape);
    SubmitRecord SubmitPackage(const std::vector<CTransactionRef>& txs, bool test_accept, int shape);

    // generator helpers
    struct Spendable { COutPoint op; RefCoin coin; bool confirmed; };
    std::vector<Spendable> FreeConfirmed();
    std::vector<Spendable> FreeUnconfirmed();
    CTransactionRef MakeTx(const std::vector<Spendable>& ins, std::vector<CTxOut> outs, int64_t feerate_milli, CAmount fee_adjust, uint32_t version, uint32_t locktime,
                           std::vector<uint32_t> sequences, SigDefect defect, int shape, bool meant_standard = true);
    CAmount InputSum(const std::vector<Spendable>& ins) const;
};

} // namespace nodesim
