# Builds the verifsim harness against the hook-enabled build of /repo (build/hooks).
REPO    ?= /repo
HOOKS   ?= /verif/build/hooks
OBJ     ?= /verif/build/obj
BIN     ?= /verif/build/verifsim
CXX     ?= c++
CCACHE  := $(shell command -v ccache 2>/dev/null)

CPPFLAGS_EXTRA ?=
CPPFLAGS := $(CPPFLAGS_EXTRA) -DBOOST_MULTI_INDEX_DISABLE_SERIALIZATION -DBOOST_NO_CXX98_FUNCTION_BASE -DENABLE_EMBEDDED_ASMAP=1 -DBITCOIN_VERIF \
            -I$(HOOKS)/src -I$(REPO)/src -I$(REPO)/src/leveldb/include -I$(REPO)/src/minisketch/include -I$(REPO)/src/univalue/include \
            -I$(REPO)/src/secp256k1/include -I/verif/src
CXXFLAGS := -O1 -g1 -std=c++20 -fPIC -fno-extended-identifiers -fstack-reuse=none -Wall -Wno-unused-parameter -Wno-unused-function -Wno-sign-compare
LDFLAGS  := -fPIE -pie -Wl,-z,relro -Wl,-z,now -rdynamic
LIBS := $(HOOKS)/lib/libtest_util.a $(HOOKS)/lib/libbitcoin_wallet.a $(HOOKS)/lib/libbitcoin_node.a $(HOOKS)/lib/libbitcoin_common.a \
        $(HOOKS)/lib/libbitcoin_consensus.a $(HOOKS)/src/libminisketch.a $(HOOKS)/src/secp256k1/lib/libsecp256k1.a $(HOOKS)/src/libleveldb.a \
        $(HOOKS)/src/libcrc32c.a $(HOOKS)/src/univalue/libunivalue.a $(HOOKS)/lib/libbitcoin_util.a $(HOOKS)/lib/libbitcoin_crypto.a \
        $(HOOKS)/lib/libbitcoin_clientversion.a
SYSLIBS := -lsqlite3 -ldl -lpthread

# ENGINES can be narrowed to build a private binary with a single engine (see src/ENGINE_GUIDE.md);
# EXTRA_SRCS are absolute paths of additional sources (e.g. a mutated private copy of one /repo source file whose
# object then shadows the archive member of the same name) compiled with the same flags.
ENGINES ?= $(wildcard /verif/src/engines/*.cpp)
EXTRA_SRCS ?=
SRCS := $(wildcard /verif/src/core/*.cpp) $(wildcard /verif/src/nodesim/*.cpp) $(wildcard /verif/src/simfs/*.cpp) $(wildcard /verif/src/threadsim/*.cpp) $(ENGINES)
OBJS := $(patsubst /verif/src/%.cpp,$(OBJ)/%.o,$(SRCS)) $(patsubst %.cpp,$(OBJ)/extra/%.o,$(notdir $(EXTRA_SRCS)))
vpath %.cpp $(sort $(dir $(EXTRA_SRCS)))

all: $(BIN)

$(OBJ)/%.o: /verif/src/%.cpp
	@mkdir -p $(dir $@)
	$(CCACHE) $(CXX) $(CPPFLAGS) $(CXXFLAGS) -MMD -MP -c $< -o $@

$(OBJ)/extra/%.o: %.cpp
	@mkdir -p $(dir $@)
	$(CXX) $(CPPFLAGS) $(CXXFLAGS) -I$(REPO)/src -c $< -o $@

$(BIN): $(OBJS) $(LIBS)
	$(CXX) $(LDFLAGS) -o $@ $(OBJS) -Wl,--start-group $(LIBS) -Wl,--end-group $(SYSLIBS)

# Tolerant build used by ./check: compile everything with `make -k objs` (an engine file that does not compile does not stop
# the others), then `make link-existing` links the framework objects (which must all exist) with whatever engine objects exist.
FRAMEWORK_OBJS := $(filter-out $(OBJ)/engines/%,$(OBJS))
objs: $(OBJS)
link-existing: $(FRAMEWORK_OBJS) $(LIBS)
	$(CXX) $(LDFLAGS) -o $(BIN) $(FRAMEWORK_OBJS) $(wildcard $(OBJ)/engines/*.o) -Wl,--start-group $(LIBS) -Wl,--end-group $(SYSLIBS)

clean:
	rm -rf $(OBJ) $(BIN)

-include $(OBJS:.o=.d)
.PHONY: all clean
