#define _GNU_SOURCE 1
#include <sqlite3.h>
#include <cstdio>
#include <dlfcn.h>
#include <fcntl.h>
#include <unistd.h>
#include <cstdarg>
static int n_pwrite=0,n_sync=0,n_open=0,n_unlink=0,n_trunc=0,n_write=0;
template<class F> static F real(const char* n){ return (F)dlsym(RTLD_NEXT,n); }
extern "C" ssize_t pwrite64(int fd,const void*b,size_t n,off64_t o){ n_pwrite++; return real<ssize_t(*)(int,const void*,size_t,off64_t)>("pwrite64")(fd,b,n,o);}
extern "C" ssize_t write(int fd,const void*b,size_t n){ if(fd>2)n_write++; return real<ssize_t(*)(int,const void*,size_t)>("write")(fd,b,n);}
extern "C" int fdatasync(int fd){ n_sync++; return real<int(*)(int)>("fdatasync")(fd);}
extern "C" int fsync(int fd){ n_sync++; return real<int(*)(int)>("fsync")(fd);}
extern "C" int unlink(const char*a){ n_unlink++; return real<int(*)(const char*)>("unlink")(a);}
extern "C" int ftruncate64(int fd, off64_t l){ n_trunc++; return real<int(*)(int,off64_t)>("ftruncate64")(fd,l);}
extern "C" int open64(const char*p,int fl,...){ va_list ap; va_start(ap,fl); int m=va_arg(ap,int); va_end(ap); n_open++; return real<int(*)(const char*,int,...)>("open64")(p,fl,m);}
int main(){
  unlink("/tmp/spike/w.db"); n_unlink=0; sqlite3* db; sqlite3_open_v2("/tmp/spike/w.db",&db,SQLITE_OPEN_READWRITE|SQLITE_OPEN_CREATE,nullptr);
  sqlite3_exec(db,"PRAGMA fullfsync=true; CREATE TABLE main(key BLOB PRIMARY KEY NOT NULL, value BLOB NOT NULL);",0,0,0);
  sqlite3_exec(db,"BEGIN; INSERT INTO main VALUES(x'01',x'aa'); INSERT INTO main VALUES(x'02',x'bb'); COMMIT;",0,0,0);
  sqlite3_exec(db,"INSERT INTO main VALUES(x'03',x'cc');",0,0,0);
  sqlite3_close(db);
  printf("sqlite %s: open64=%d pwrite64=%d write=%d sync=%d unlink=%d ftruncate64=%d\n",sqlite3_libversion(),n_open,n_pwrite,n_write,n_sync,n_unlink,n_trunc);
}
