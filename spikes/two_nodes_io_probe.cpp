// Throwaway spike: two on-disk nodes in one process + libc I/O recording + restart timing.
#include <test/util/setup_common.h>
#include <test/util/mining.h>
#include <chainparams.h>
#include <kernel/coinstats.h>
#include <node/blockstorage.h>
#include <node/chainstate.h>
#include <node/kernel_notifications.h>
#include <node/caches.h>
#include <validation.h>
#include <validationinterface.h>
#include <util/task_runner.h>
#include <util/time.h>
#include <node/warnings.h>
#include <chrono>
#include <cstdio>
#include <dlfcn.h>
#include <fcntl.h>
#include <unistd.h>
#include <cstring>
#include <map>

const std::function<std::vector<const char*>()> G_TEST_COMMAND_LINE_ARGUMENTS{};
const std::function<std::string()> G_TEST_GET_FULL_NAME{};

static long n_write=0,n_sync=0,n_rename=0,n_unlink=0,n_fopen=0,n_falloc=0,n_trunc=0,n_bytes=0; static bool g_rec=false;
template<class F> static F real(const char* n){ return (F)dlsym(RTLD_NEXT,n); }
extern "C" ssize_t write(int fd,const void*b,size_t n){ static auto r=real<ssize_t(*)(int,const void*,size_t)>("write"); if(g_rec&&fd>2){n_write++;n_bytes+=n;} return r(fd,b,n);}
extern "C" ssize_t pwrite64(int fd,const void*b,size_t n,off64_t o){ static auto r=real<ssize_t(*)(int,const void*,size_t,off64_t)>("pwrite64"); if(g_rec){n_write++;n_bytes+=n;} return r(fd,b,n,o);}
extern "C" int fdatasync(int fd){ static auto r=real<int(*)(int)>("fdatasync"); if(g_rec)n_sync++; return r(fd);}
extern "C" int fsync(int fd){ static auto r=real<int(*)(int)>("fsync"); if(g_rec)n_sync++; return r(fd);}
extern "C" int rename(const char*a,const char*b){ static auto r=real<int(*)(const char*,const char*)>("rename"); if(g_rec)n_rename++; return r(a,b);}
extern "C" int unlink(const char*a){ static auto r=real<int(*)(const char*)>("unlink"); if(g_rec)n_unlink++; return r(a);}
extern "C" int ftruncate(int fd, off_t l){ static auto r=real<int(*)(int,off_t)>("ftruncate"); if(g_rec)n_trunc++; return r(fd,l);}
extern "C" int posix_fallocate(int fd, off_t o, off_t l){ static auto r=real<int(*)(int,off_t,off_t)>("posix_fallocate"); if(g_rec)n_falloc++; return r(fd,o,l);}
struct Cookie{int fd;}; static std::map<FILE*,int> g_fds;
static ssize_t c_read(void*c,char*b,size_t n){return read(((Cookie*)c)->fd,b,n);}
static ssize_t c_write(void*c,const char*b,size_t n){ssize_t r=write(((Cookie*)c)->fd,b,n); return r<0?0:r;}
static int c_seek(void*c,off64_t*o,int w){off64_t r=lseek64(((Cookie*)c)->fd,*o,w); if(r<0)return -1; *o=r; return 0;}
static int c_close(void*c){int fd=((Cookie*)c)->fd; delete (Cookie*)c; return close(fd);}
static FILE* my_fopen(const char*p,const char*m){ if(!g_rec) return nullptr; n_fopen++; int fl=0; bool plus=strchr(m,'+'); if(m[0]=='r') fl=plus?O_RDWR:O_RDONLY; else if(m[0]=='w') fl=(plus?O_RDWR:O_WRONLY)|O_CREAT|O_TRUNC; else fl=(plus?O_RDWR:O_WRONLY)|O_CREAT|O_APPEND; int fd=open(p,fl,0644); if(fd<0) return nullptr; auto*c=new Cookie{fd}; cookie_io_functions_t io{c_read,c_write,c_seek,c_close}; FILE*f=fopencookie(c,m,io); g_fds[f]=fd; return f;}
extern "C" FILE* fopen(const char*p,const char*m){ static auto r=real<FILE*(*)(const char*,const char*)>("fopen"); if(g_rec&&strstr(p,"node2")) return my_fopen(p,m); return r(p,m);}
extern "C" FILE* fopen64(const char*p,const char*m){ return fopen(p,m);}
extern "C" int fileno(FILE*f){ static auto r=real<int(*)(FILE*)>("fileno"); auto it=g_fds.find(f); if(it!=g_fds.end()) return it->second; return r(f);}
extern "C" int fclose(FILE*f){ static auto r=real<int(*)(FILE*)>("fclose"); g_fds.erase(f); return r(f);}

struct Node2 {
    fs::path dir; node::NodeContext& base; std::unique_ptr<node::Warnings> warnings; std::unique_ptr<node::KernelNotifications> notif; std::unique_ptr<ValidationSignals> signals; std::unique_ptr<ChainstateManager> chainman; util::SignalInterrupt interrupt; std::atomic<int> exit_status{0};
    kernel::CacheSizes caches;
    Node2(fs::path d, node::NodeContext& b): dir(d), base(b), caches{node::CalculateCacheSizes(*b.args).kernel} {}
    void start(){
        warnings=std::make_unique<node::Warnings>();
        notif=std::make_unique<node::KernelNotifications>([this]{return interrupt();}, exit_status, *warnings);
        signals=std::make_unique<ValidationSignals>(std::make_unique<util::ImmediateTaskRunner>());
        ChainstateManager::Options o{.chainparams=Params(), .datadir=dir, .check_block_index=1, .notifications=*notif, .signals=signals.get(), .worker_threads_num=0, .prevoutfetch_threads_num=0};
        o.coins_view.batch_write_bytes=2000;
        node::BlockManager::Options bo{.chainparams=Params(), .blocks_dir=dir/"blocks", .notifications=*notif, .block_tree_db_params=DBParams{.path=dir/"blocks"/"index", .cache_bytes=caches.block_tree_db}};
        chainman=std::make_unique<ChainstateManager>(interrupt,o,bo);
        node::ChainstateLoadOptions lo; lo.check_blocks=0; lo.check_level=4;
        auto [st,err]=node::LoadChainstate(*chainman,caches,lo); if(st!=node::ChainstateLoadStatus::SUCCESS){printf("load fail %s\n",err.original.c_str());exit(1);}
        std::tie(st,err)=node::VerifyLoadedChainstate(*chainman,lo); if(st!=node::ChainstateLoadStatus::SUCCESS){printf("verify fail %s\n",err.original.c_str());exit(1);}
        notif->setChainstateLoaded(true);
        BlockValidationState s; if(!chainman->ActiveChainstate().ActivateBestChain(s)) {printf("abc fail\n");exit(1);}
    }
    void stop(bool flush){ if(flush){LOCK(cs_main); chainman->ActiveChainstate().ForceFlushStateToDisk();} chainman.reset(); signals.reset(); notif.reset(); }
    uint256 utxohash(){ LOCK(cs_main); chainman->ActiveChainstate().ForceFlushStateToDisk(/*wipe_cache=*/false); auto s=kernel::ComputeUTXOStats(kernel::CoinStatsHashType::HASH_SERIALIZED,chainman->ActiveChainstate().CoinsDB(),chainman->m_blockman); return s->hashSerialized; }
};

int main(){
    TestChain100Setup t1{ChainType::REGTEST, {.coins_db_in_memory=true,.block_tree_db_in_memory=true}};
    auto& cm1=*t1.m_node.chainman;
    std::vector<std::shared_ptr<const CBlock>> blocks;
    { LOCK(cs_main); for(int h=1;h<=cm1.ActiveHeight();h++){ auto b=std::make_shared<CBlock>(); cm1.m_blockman.ReadBlock(*b,*cm1.ActiveChain()[h]); blocks.push_back(b);} }
    fs::path d=t1.m_path_root/"node2"; fs::create_directories(d/"blocks");
    Node2 n2{d,t1.m_node};
    g_rec=true;
    auto T0=std::chrono::steady_clock::now();
    n2.start();
    auto T1=std::chrono::steady_clock::now();
    int i=0; for(auto&b:blocks){ bool nb; n2.chainman->ProcessNewBlock(b,true,true,&nb); if(++i%25==0){LOCK(cs_main); n2.chainman->ActiveChainstate().ForceFlushStateToDisk(false);} }
    auto T2=std::chrono::steady_clock::now();
    uint256 h2=n2.utxohash();
    uint256 h1; { LOCK(cs_main); cm1.ActiveChainstate().ForceFlushStateToDisk(false); h1=kernel::ComputeUTXOStats(kernel::CoinStatsHashType::HASH_SERIALIZED,cm1.ActiveChainstate().CoinsDB(),cm1.m_blockman)->hashSerialized; }
    printf("two nodes: tip1=%d tip2=%d utxo equal=%d\n", cm1.ActiveHeight(), WITH_LOCK(cs_main, return n2.chainman->ActiveHeight()), h1==h2);
    printf("io: write=%ld bytes=%ld sync=%ld rename=%ld unlink=%ld fopen=%ld falloc=%ld trunc=%ld\n",n_write,n_bytes,n_sync,n_rename,n_unlink,n_fopen,n_falloc,n_trunc);
    n2.stop(false);
    auto T3=std::chrono::steady_clock::now();
    n2.start();
    auto T4=std::chrono::steady_clock::now();
    printf("after dirty restart tip2=%d\n", WITH_LOCK(cs_main, return n2.chainman->ActiveHeight()));
    auto ms=[](auto a,auto b){return std::chrono::duration<double,std::milli>(b-a).count();};
    printf("ms: first start=%.1f connect100=%.1f restart(load+verify L4 all)=%.1f\n",ms(T0,T1),ms(T1,T2),ms(T3,T4));
    n2.stop(true); g_rec=false;
}
