#include <atomic>
#include <condition_variable>
#include <cstdio>
#include <future>
#include <mutex>
#include <thread>
#include <dlfcn.h>
#include <pthread.h>
#include <sys/syscall.h>
#include <unistd.h>
#include <cstdarg>
#include <shared_mutex>
#include <semaphore>
static std::atomic<int> n_lock{0}, n_condwait{0}, n_condsig{0}, n_futex{0}, n_create{0}, n_clock{0}, n_clockwait{0}, n_rw{0}, n_once{0}, n_sem{0};

extern "C" int pthread_mutex_lock(pthread_mutex_t* m) { n_lock++; static auto real=(int(*)(pthread_mutex_t*))dlsym(RTLD_NEXT,"pthread_mutex_lock"); return real(m); }
extern "C" int pthread_cond_wait(pthread_cond_t* c, pthread_mutex_t* m) { n_condwait++; static auto real=(int(*)(pthread_cond_t*,pthread_mutex_t*))dlsym(RTLD_NEXT,"pthread_cond_wait"); return real(c,m); }
extern "C" int pthread_cond_clockwait(pthread_cond_t* c, pthread_mutex_t* m, clockid_t id, const timespec* ts) { n_clockwait++; static auto real=(int(*)(pthread_cond_t*,pthread_mutex_t*,clockid_t,const timespec*))dlsym(RTLD_NEXT,"pthread_cond_clockwait"); return real(c,m,id,ts); }
extern "C" int pthread_cond_signal(pthread_cond_t* c) { n_condsig++; static auto real=(int(*)(pthread_cond_t*))dlsym(RTLD_NEXT,"pthread_cond_signal"); return real(c); }
extern "C" int pthread_cond_broadcast(pthread_cond_t* c) { n_condsig++; static auto real=(int(*)(pthread_cond_t*))dlsym(RTLD_NEXT,"pthread_cond_broadcast"); return real(c); }
extern "C" int pthread_create(pthread_t* t, const pthread_attr_t* a, void*(*f)(void*), void* arg) { n_create++; static auto real=(int(*)(pthread_t*,const pthread_attr_t*,void*(*)(void*),void*))dlsym(RTLD_NEXT,"pthread_create"); return real(t,a,f,arg); }
extern "C" int pthread_rwlock_rdlock(pthread_rwlock_t* l) { n_rw++; static auto real=(int(*)(pthread_rwlock_t*))dlsym(RTLD_NEXT,"pthread_rwlock_rdlock"); return real(l); }
extern "C" int pthread_once(pthread_once_t* o, void(*f)()) { n_once++; static auto real=(int(*)(pthread_once_t*,void(*)()))dlsym(RTLD_NEXT,"pthread_once"); return real(o,f); }
extern "C" int sem_wait(sem_t* s) { n_sem++; static auto real=(int(*)(sem_t*))dlsym(RTLD_NEXT,"sem_wait"); return real(s); }
extern "C" int clock_gettime(clockid_t id, timespec* ts) { n_clock++; static auto real=(int(*)(clockid_t,timespec*))dlsym(RTLD_NEXT,"clock_gettime"); return real(id,ts); }
extern "C" long syscall(long nr, ...) { va_list ap; va_start(ap,nr); long a=va_arg(ap,long),b=va_arg(ap,long),c=va_arg(ap,long),d=va_arg(ap,long),e=va_arg(ap,long),f=va_arg(ap,long); va_end(ap); if(nr==SYS_futex) n_futex++; static auto real=(long(*)(long,...))dlsym(RTLD_NEXT,"syscall"); return real(nr,a,b,c,d,e,f); }
int main(){
  std::mutex m; std::condition_variable cv; bool ready=false; std::atomic_flag fl{}; std::shared_mutex sm; std::once_flag of; std::binary_semaphore sem{0};
  std::thread t([&]{ std::this_thread::sleep_for(std::chrono::milliseconds(20)); {std::lock_guard<std::mutex> l(m); ready=true;} cv.notify_one(); std::this_thread::sleep_for(std::chrono::milliseconds(20)); fl.test_and_set(); fl.notify_one(); sem.release();});
  { std::unique_lock<std::mutex> l(m); cv.wait(l,[&]{return ready;}); }
  { std::unique_lock<std::mutex> l(m); cv.wait_until(l, std::chrono::steady_clock::now()+std::chrono::milliseconds(5), [&]{return false;}); }
  { std::unique_lock<std::mutex> l(m); cv.wait_until(l, std::chrono::system_clock::now()+std::chrono::milliseconds(5), [&]{return false;}); }
  fl.wait(false); sem.acquire();
  auto fut = std::async(std::launch::async, []{ std::this_thread::sleep_for(std::chrono::milliseconds(30)); return 7; });
  fut.wait();
  { std::shared_lock<std::shared_mutex> l(sm); }
  std::call_once(of, []{});
  auto now = std::chrono::steady_clock::now(); (void)now; auto now2=std::chrono::system_clock::now(); (void)now2;
  t.join();
  printf("lock=%d condwait=%d clockwait=%d condsig=%d futex=%d create=%d clock=%d rw=%d once=%d sem=%d\n", n_lock.load(), n_condwait.load(), n_clockwait.load(), n_condsig.load(), n_futex.load(), n_create.load(), n_clock.load(), n_rw.load(), n_once.load(), n_sem.load());
}
