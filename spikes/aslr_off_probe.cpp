#include <sys/personality.h>
#include <unistd.h>
#include <cstdio>
#include <cstdlib>
int main(int argc,char**argv){
  int p=personality(0xffffffff);
  if(!(p & ADDR_NO_RANDOMIZE)){ if(personality(p|ADDR_NO_RANDOMIZE)==-1){perror("personality");return 1;} execv("/proc/self/exe",argv); perror("execv"); return 1;}
  void* a=malloc(100); void* b=malloc(1<<22); int s; printf("heap=%p mmap=%p stack=%p main=%p\n",a,b,(void*)&s,(void*)&main);
}
