#define _GNU_SOURCE 1
#include <cstdio>
#include <cstring>
#include <dlfcn.h>
#include <fcntl.h>
#include <filesystem>
#include <fstream>
#include <unistd.h>
#include <map>
static int n_write=0,n_fsync=0,n_rename=0,n_open=0,n_fopen=0,n_unlink=0,n_ftrunc=0,n_falloc=0;
template<class F> static F real(const char* n){ return (F)dlsym(RTLD_NEXT,n); }
extern "C" ssize_t write(int fd,const void*b,size_t n){ if(fd>2) n_write++; return real<ssize_t(*)(int,const void*,size_t)>("write")(fd,b,n);}
extern "C" int fdatasync(int fd){ n_fsync++; return real<int(*)(int)>("fdatasync")(fd);}
extern "C" int fsync(int fd){ n_fsync++; return real<int(*)(int)>("fsync")(fd);}
extern "C" int rename(const char*a,const char*b){ n_rename++; return real<int(*)(const char*,const char*)>("rename")(a,b);}
extern "C" int unlink(const char*a){ n_unlink++; return real<int(*)(const char*)>("unlink")(a);}
extern "C" int remove(const char*a){ n_unlink++; return real<int(*)(const char*)>("remove")(a);}
extern "C" int ftruncate(int fd, off_t l){ n_ftrunc++; return real<int(*)(int,off_t)>("ftruncate")(fd,l);}
extern "C" int posix_fallocate(int fd, off_t o, off_t l){ n_falloc++; return real<int(*)(int,off_t,off_t)>("posix_fallocate")(fd,o,l);}
struct Cookie{int fd;};
static std::map<FILE*,int> g_fds;
static ssize_t c_read(void*c,char*b,size_t n){return read(((Cookie*)c)->fd,b,n);}
static ssize_t c_write(void*c,const char*b,size_t n){ssize_t r=write(((Cookie*)c)->fd,b,n); return r<0?0:r;}
static int c_seek(void*c,off64_t*o,int w){off64_t r=lseek64(((Cookie*)c)->fd,*o,w); if(r<0)return -1; *o=r; return 0;}
static int c_close(void*c){int r=close(((Cookie*)c)->fd); delete (Cookie*)c; return r;}
extern "C" FILE* fopen(const char*p,const char*m){ n_fopen++; int fl=0; bool plus=strchr(m,'+'); if(m[0]=='r') fl=plus?O_RDWR:O_RDONLY; else if(m[0]=='w') fl=(plus?O_RDWR:O_WRONLY)|O_CREAT|O_TRUNC; else fl=(plus?O_RDWR:O_WRONLY)|O_CREAT|O_APPEND; int fd=open(p,fl,0644); if(fd<0) return nullptr; auto*c=new Cookie{fd}; cookie_io_functions_t io{c_read,c_write,c_seek,c_close}; FILE*f=fopencookie(c,m,io); g_fds[f]=fd; return f;}
extern "C" FILE* fopen64(const char*p,const char*m){ return fopen(p,m);}
extern "C" int fileno(FILE*f){ auto it=g_fds.find(f); if(it!=g_fds.end()) return it->second; return real<int(*)(FILE*)>("fileno")(f);}
int main(){
  FILE*f=fopen("/tmp/spike/a.dat","wb+"); fwrite("hello",1,5,f); fflush(f); printf("fileno=%d\n",fileno(f)); fdatasync(fileno(f)); posix_fallocate(fileno(f),0,100); ftruncate(fileno(f),50); fseek(f,2,SEEK_SET); char b[4]={0}; fread(b,1,3,f); printf("read=%s\n",b); fclose(f);
  std::filesystem::rename("/tmp/spike/a.dat","/tmp/spike/b.dat");
  { std::ofstream o("/tmp/spike/c.dat"); o<<"x"; }
  std::filesystem::remove("/tmp/spike/b.dat"); std::filesystem::remove("/tmp/spike/c.dat");
  printf("write=%d fsync=%d rename=%d open=%d fopen=%d unlink=%d ftrunc=%d falloc=%d\n",n_write,n_fsync,n_rename,n_open,n_fopen,n_unlink,n_ftrunc,n_falloc);
}
