// Throwaway feasibility spike: serialising scheduler over interposed pthread/futex calls.
#define _GNU_SOURCE 1
#include <atomic>
#include <cerrno>
#include <climits>
#include <condition_variable>
#include <cstdarg>
#include <cstdint>
#include <cstdio>
#include <cstdlib>
#include <cstring>
#include <dlfcn.h>
#include <future>
#include <linux/futex.h>
#include <mutex>
#include <pthread.h>
#include <string>
#include <sys/syscall.h>
#include <thread>
#include <unistd.h>
#include <vector>

namespace sim {
enum St { RUNNABLE, B_MUTEX, B_COND, B_FUTEX, B_JOIN, FINISHED };
struct T { int id; St st{RUNNABLE}; const void* obj{nullptr}; int go{0}; bool signaled{false}; void*(*fn)(void*); void* arg; pthread_t pt; };
static std::vector<T*> threads; static bool armed=false; static uint64_t rng; static bool preempt=false;
static thread_local T* self=nullptr; static std::string trace; static long switches=0;
static long (*r_syscall)(long,...); static int (*r_lock)(pthread_mutex_t*); static int (*r_trylock)(pthread_mutex_t*); static int (*r_unlock)(pthread_mutex_t*);
static int (*r_create)(pthread_t*,const pthread_attr_t*,void*(*)(void*),void*); static int (*r_join)(pthread_t,void**);
static int (*r_cwait)(pthread_cond_t*,pthread_mutex_t*); static int (*r_csig)(pthread_cond_t*); static int (*r_cbc)(pthread_cond_t*);
static void resolve(){ if(r_syscall) return; r_syscall=(long(*)(long,...))dlsym(RTLD_NEXT,"syscall"); r_lock=(int(*)(pthread_mutex_t*))dlsym(RTLD_NEXT,"pthread_mutex_lock"); r_trylock=(int(*)(pthread_mutex_t*))dlsym(RTLD_NEXT,"pthread_mutex_trylock"); r_unlock=(int(*)(pthread_mutex_t*))dlsym(RTLD_NEXT,"pthread_mutex_unlock"); r_create=(decltype(r_create))dlsym(RTLD_NEXT,"pthread_create"); r_join=(decltype(r_join))dlsym(RTLD_NEXT,"pthread_join"); r_cwait=(decltype(r_cwait))dlsym(RTLD_NEXT,"pthread_cond_wait"); r_csig=(decltype(r_csig))dlsym(RTLD_NEXT,"pthread_cond_signal"); r_cbc=(decltype(r_cbc))dlsym(RTLD_NEXT,"pthread_cond_broadcast"); }
static uint64_t next(){ rng^=rng<<13; rng^=rng>>7; rng^=rng<<17; return rng; }
static void park(T* t){ while(!__atomic_load_n(&t->go,__ATOMIC_ACQUIRE)) r_syscall(SYS_futex,&t->go,FUTEX_WAIT,0,nullptr,nullptr,0); __atomic_store_n(&t->go,0,__ATOMIC_RELAXED); }
static void unpark(T* t){ __atomic_store_n(&t->go,1,__ATOMIC_RELEASE); r_syscall(SYS_futex,&t->go,FUTEX_WAKE,1,nullptr,nullptr,0); }
// pick next runnable and hand over; returns when self is scheduled again
static void schedule(bool exiting=false){
  std::vector<T*> run; for(T* t:threads) if(t->st==RUNNABLE) run.push_back(t);
  if(run.empty()){ fprintf(stderr,"DEADLOCK trace=%s\n",trace.c_str()); _exit(3); }
  T* me=self; T* n;
  if(!preempt && me->st==RUNNABLE && !exiting) n=me; else n=run[next()%run.size()];
  if(n==me) return;
  switches++; trace+=char('A'+n->id);
  unpark(n); if(!exiting) park(me);
}
static void maybe_preempt(){ if(preempt && (next()%4)==0) schedule(); }
static void* tramp(void* p){ T* t=(T*)p; self=t; park(t); void* r=t->fn(t->arg); t->st=FINISHED; for(T* o:threads) if(o->st==B_JOIN&&o->obj==t) o->st=RUNNABLE; schedule(true); self=nullptr; return r; }
static void arm(uint64_t seed,bool pre){ resolve(); for(T*t:threads) delete t; threads.clear(); trace.clear(); switches=0; rng=seed*0x9E3779B97F4A7C15ull+1; preempt=pre; T* m=new T{0}; threads.push_back(m); self=m; armed=true; }
static void disarm(){ armed=false; self=nullptr; }
}
using namespace sim;
extern "C" int pthread_mutex_lock(pthread_mutex_t* m){ resolve(); if(!armed||!self) return r_lock(m); maybe_preempt(); for(;;){ int r=r_trylock(m); if(r!=EBUSY) return r; self->st=B_MUTEX; self->obj=m; schedule(); } }
extern "C" int pthread_mutex_unlock(pthread_mutex_t* m){ resolve(); int r=r_unlock(m); if(armed&&self){ for(T*t:threads) if(t->st==B_MUTEX&&t->obj==m) t->st=RUNNABLE; } return r; }
extern "C" int pthread_cond_wait(pthread_cond_t* c,pthread_mutex_t* m){ resolve(); if(!armed||!self) return r_cwait(c,m); self->st=B_COND; self->obj=c; pthread_mutex_unlock(m); schedule(); return pthread_mutex_lock(m); }
extern "C" int pthread_cond_signal(pthread_cond_t* c){ resolve(); if(!armed||!self) return r_csig(c); std::vector<T*> w; for(T*t:threads) if(t->st==B_COND&&t->obj==c) w.push_back(t); if(!w.empty()) w[next()%w.size()]->st=RUNNABLE; maybe_preempt(); return 0; }
extern "C" int pthread_cond_broadcast(pthread_cond_t* c){ resolve(); if(!armed||!self) return r_cbc(c); for(T*t:threads) if(t->st==B_COND&&t->obj==c) t->st=RUNNABLE; maybe_preempt(); return 0; }
extern "C" int pthread_create(pthread_t* pt,const pthread_attr_t* a,void*(*f)(void*),void* arg){ resolve(); if(!armed||!self) return r_create(pt,a,f,arg); T* t=new T{(int)threads.size()}; t->fn=f; t->arg=arg; threads.push_back(t); int r=r_create(pt,a,tramp,t); t->pt=*pt; maybe_preempt(); return r; }
extern "C" int pthread_join(pthread_t pt,void** ret){ resolve(); if(armed&&self){ T* tgt=nullptr; for(T*t:threads) if(t->id&&pthread_equal(t->pt,pt)) tgt=t; while(tgt&&tgt->st!=FINISHED){ self->st=B_JOIN; self->obj=tgt; schedule(); } } return r_join(pt,ret); }
extern "C" long syscall(long nr,...){ resolve(); va_list ap; va_start(ap,nr); long a=va_arg(ap,long),b=va_arg(ap,long),c=va_arg(ap,long),d=va_arg(ap,long),e=va_arg(ap,long),f=va_arg(ap,long); va_end(ap);
  if(nr==SYS_futex&&armed&&self){ int op=b&FUTEX_CMD_MASK; if(op==FUTEX_WAIT||op==FUTEX_WAIT_BITSET){ if(*(volatile int*)a!=(int)c){ errno=EAGAIN; return -1;} self->st=B_FUTEX; self->obj=(void*)a; schedule(); return 0; } if(op==FUTEX_WAKE||op==FUTEX_WAKE_BITSET){ int n=0; for(T*t:threads) if(t->st==B_FUTEX&&t->obj==(void*)a&&n<(int)c){ t->st=RUNNABLE; n++; } maybe_preempt(); return n; } }
  return r_syscall(nr,a,b,c,d,e,f); }

// ---- workload: checkqueue-like master/worker + future + atomic_flag wait
static std::string run(uint64_t seed,bool pre){
  arm(seed,pre);
  std::string order; {
  std::mutex m; std::condition_variable cv_w, cv_m; std::vector<int> q; int todo=0; bool stop=false; std::atomic_flag ready{}; int coin=0;
  auto worker=[&](int id){ for(;;){ int item; { std::unique_lock<std::mutex> l(m); cv_w.wait(l,[&]{return stop||!q.empty();}); if(q.empty()) return; item=q.back(); q.pop_back(); } { std::lock_guard<std::mutex> l(m); order+=char('0'+id); order+=char('a'+item); if(--todo==0) cv_m.notify_one(); } } };
  std::vector<std::thread> ws; for(int i=0;i<3;i++) ws.emplace_back(worker,i);
  auto fut=std::async(std::launch::async,[&]{ coin=42; ready.test_and_set(std::memory_order_release); ready.notify_one(); return 7; });
  { std::lock_guard<std::mutex> l(m); for(int i=0;i<6;i++) q.push_back(i); todo=6; } cv_w.notify_all();
  { std::unique_lock<std::mutex> l(m); cv_m.wait(l,[&]{return todo==0;}); }
  ready.wait(false,std::memory_order_acquire); if(coin!=42) order+="!RACE"; if(fut.get()!=7) order+="!FUT";
  { std::lock_guard<std::mutex> l(m); stop=true; } cv_w.notify_all(); for(auto&t:ws) t.join();
  }
  std::string res=order+"|"+trace+"|"+std::to_string(switches); disarm(); return res;
}
int main(){
  int distinct=0; std::vector<std::string> seen;
  for(uint64_t s=1;s<=300;s++){ std::string a=run(s,true), b=run(s,true); if(a!=b){ printf("NONDETERMINISTIC seed=%lu\n%s\n%s\n",s,a.c_str(),b.c_str()); return 1;} bool nw=true; for(auto&x:seen) if(x==a) nw=false; if(nw){seen.push_back(a); distinct++;} }
  printf("preemptive: 300 seeds x2 deterministic, %d distinct schedules; sample: %s\n",distinct,seen[0].c_str());
  std::string c1=run(1,false), c2=run(99,false); printf("cooperative: %s same_across_seeds=%d\n",c1.c_str(),c1==c2);
}
