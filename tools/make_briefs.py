#!/usr/bin/env python3
"""Generates the briefs handed to sub-agents that write single engines (kept for the record)."""
import json, re, os, sys

props = {json.loads(l)['id']: json.loads(l) for l in open('/verif/properties.jsonl')}
design = open('/verif/DESIGN.md').read()


def para(pid):
    m = re.search(r'\*\*' + pid + r' — .*?(?=\n\*\*C\d\d — |\n### |\n---)', design, re.S)
    return m.group(0).strip()


TEMPLATE = """You are building ONE engine of a deterministic-simulation-with-fault-injection verification harness ("verifsim") for bitcoin/bitcoin (source in /repo at a pinned commit; do NOT edit anything under /repo). The harness lives in /verif. Read these first, in this order:
  1. /verif/src/ENGINE_GUIDE.md  (the contract, the soundness rules, how to build and run privately)
  2. /verif/src/core/sim.h and /verif/src/core/rng.h  (the API)
  3. /verif/src/engines/c34_txrequest.cpp  (the worked example; imitate its structure and style)
  4. /verif/DESIGN.md section 2 (ground rules) — the per-property design paragraph is quoted below.

Your property is {pid}. Its record from /verif/properties.jsonl (fixed; the statement is what your oracle must decide, no more and no less):

{record}

The design paragraph for it (from /verif/DESIGN.md section 5; treat it as the plan, deviate only where the real code forces you to, and say so in your final report):

{para}

Deliverable: exactly one new file /verif/src/engines/{fname} (plus, only if really needed, one header next to it with the same prefix). It must register an Engine with prop "{pid}". Additional guidance specific to this engine:
{extra}

Working rules:
- Build ONLY privately: make -C /verif -j6 ENGINES=/verif/src/engines/{fname} OBJ=/verif/build/obj_{low} BIN=/verif/build/verifsim_{low}   (the hook-enabled libraries in /verif/build/hooks are already built; do not rebuild them, do not run ./check, do not run plain `make` in /verif, never run ninja/cmake). Other engineers are building other engines in /verif concurrently: touch no file but yours, do not git commit, do not edit MANIFEST.json, DESIGN.md, Makefile, src/core/*.
- Read the real bitcoin code you drive (headers and the .cpp) before writing the model; the unit tests and fuzz targets under /repo/src/test (e.g. src/test/fuzz/*.cpp) show how to construct and drive the component — you may imitate how they call the API, but the reference model/oracle must be your own independent code written from the property statement and the component's documented contract.
- Soundness first: on the unchanged tree your engine must report zero violations for at least 8 different seeds (VERIF_SEED=1..8, quick tier) and `selftest-determinism {pid} --runs 3000` must report 0 mismatches. If you find a violation on the unchanged tree, work out whether your model/oracle is wrong (fix it) or bitcoin really breaks the property statement (then keep the check as is and report the exact replay file and your analysis).
- Sensitivity: demonstrate that the engine catches at least 5 realistic mutants of the code under test (start with the "Must-catch" list of the design paragraph) using the EXTRA_SRCS mechanism of the guide with a private copy under /tmp/mut_{low}/ (remove it when done). Each mutant must still compile. For every mutant record: the one-line diff, whether quick tier caught it, violation class, minimised op count. If a mutant is missed, improve the workload/oracle (not by over-claiming) and retry.
- Size the run counts so that the quick tier takes about 20-45 s wall on 16 cores (runner forks `chunk` runs per child; use chunk 200-1000 for sub-millisecond runs) and thorough about 10-15 minutes (budgets are enforced by the runner; set quick_budget_s ~50, thorough_budget_s ~900). The machine is shared with other builds right now, so measure with --jobs 4 and extrapolate rather than hogging 16 cores for long.
- Evidence quality: meaningful ctx.probe()/ctx.fault() names (faults counted only when they fired), ctx.fingerprint() of the model state after each op, ctx.nontrivial, ctx.sim_ms where there is a simulated clock, a precise Engine::rule text, expected_probes, real/stub component lists, assumptions.
- Clean up: remove /verif/build/obj_{low}, /verif/build/verifsim_{low}, /tmp/mut_{low} and any replay files you created under /verif/replays when you are done; leave only your source file(s).

Final report (plain text, concise): what the engine simulates (workload ops, fault kinds, schedule space), the oracle clause by clause, run rates, the mutant table (diff, caught?, class, minimised ops), anything about the property statement you could NOT decide (so it can be stated as a limitation), and any suspicious behaviour of the real code you noticed.
"""

EXTRA = {
    'C35': ('c35_orphanage.cpp', """- The component is node::TxOrphanage (src/node/txorphanage.h, MakeTxOrphanage). Build orphan transactions by hand (CMutableTransaction with chosen inputs/outputs/witness sizes to vary weight and input count). The "faults" here are peer disconnects (EraseForPeer) and blocks (EraseForBlock) arriving at arbitrary points, and many peers flooding. The per-peer share formulas are documented in txorphanage.h; re-derive them in your model from that documentation."""),
    'C37': ('c37_addrman.cpp', """- Component: AddrMan (src/addrman.h, addrman_impl.h). Use deterministic=true and consistency_check_ratio=1 (the internal check aborts on failure; the runner reports aborts). Drive a simulated clock with SetMockTime (see how addrman reads time). Serialisation round trip through a DataStream AND through a file in sim::RunDir() using the real peers.dat code path (src/addrdb.h: DumpPeerAddresses / LoadAddrman or the stream functions) with stored-data faults on the file (truncate at a seeded offset, flip a seeded byte): claim exactly what the format promises (peers.dat has a trailing hash: a damaged file must be rejected, never silently loaded as a different set). Look at src/test/fuzz/addrman.cpp and src/test/addrman_tests.cpp for API usage (AddrManDeterministic is fuzz-only; do not depend on fuzz code)."""),
    'C60': ('c60_banman.cpp', """- Component: BanMan (src/banman.h) with its banlist file in sim::RunDir(); restart = destroy the object and construct a new one on the same file. Read banman.cpp to see exactly when it persists (DumpBanlist on dirty) and model that. Clock via SetMockTime. Own prefix matcher for the model (do not call CSubNet::Match in the model). Use LookupHost/LookupSubNet (src/netbase.h) only to construct the inputs from strings; generate IPv4, IPv6, IPv4-mapped, Tor v3, I2P, CJDNS addresses (see src/test/netbase_tests.cpp and net_tests.cpp for how to build them). Discouragement uses a rolling bloom filter: only check 'discouraged stays discouraged until ClearBanned' within capacity and never assert absence."""),
    'C33': ('c33_headerssync.cpp', """- Component: HeadersSyncState (src/headerssync.h). Construct with custom HeadersSyncParams (small commitment_period / redownload_buffer_size drawn per run) and suitable Consensus::Params (see src/test/headers_sync_chainwork_tests.cpp for a working construction incl. how headers are generated and how the chain_start CBlockIndex is built). Peers are scripted: honest, low-work, chain-switch between presync and redownload, altered header, partial/empty/oversized batches. Oracle is announcement-level and written from the statement. This is the compsim part only (no full node)."""),
    'C32': ('c32_transport.cpp', """- Components: V1Transport and V2Transport (src/net.h/net.cpp), BIP324Cipher (src/bip324.h). Pair two transports over two simulated byte pipes; the simulator chooses every chunk size for GetBytesToSend/MarkBytesSent/ReceivedBytes and the interleaving of the two directions; faults: bit flip at a seeded stream offset, truncation (stall), duplicated segment. See src/test/fuzz/p2p_transport_serialization.cpp and src/test/net_tests.cpp (V2TransportTester) for how to drive the API (V2Transport has a test constructor taking key, ent32 and garbage explicitly — use it with bytes derived from the plan so runs are deterministic). Independent BIP324 packet encoder for the ciphertext comparison: write it from the BIP using only primitive classes (ChaCha20, FSChaCha20, AEADChaCha20Poly1305 / FSChaCha20Poly1305, HKDF, EllSwift ECDH via CKey::ComputeBIP324ECDHSecret) — do not reuse BIP324Cipher itself in the model. Payload sizes: mostly small, occasionally up to a few hundred kB; cross the 224-packet rekey boundary in some runs. A v1 message with a wrong checksum must not be delivered as valid (read GetReceivedMessage / reject_message semantics)."""),
    'C52': ('c52_http.cpp', """- Component: the socket-based HTTP server in src/httpserver.h/.cpp (read it carefully first: find the request parser entry points and the client class that owns the receive buffer, and how src/test/httpserver_tests.cpp drives them). Minimum scope: the incremental parser fed the same byte stream under different fragmentations must yield the same sequence of parsed requests / same error as single-chunk delivery, and agree with your own small reference parser written from the rules the code documents (limits: max header size, max body size, chunked encoding). If the server loop can be driven over a mock Sock (see src/test/util/net.h DynSock / StaticContentsSock and the CreateSock seam), add that mode too and cover ClientAllowed (allowed subnets) — but only if it can be done deterministically without real threads or sockets; otherwise state it as a limitation. Do not start real listening sockets or threads."""),
    'C38': ('c38_cmpctblock.cpp', """- Component: PartiallyDownloadedBlock / CBlockHeaderAndShortTxIDs / BlockTransactionsRequest (src/blockencodings.h). It needs a CTxMemPool: construct a standalone mempool (see src/test/blockencodings_tests.cpp and src/test/util/txmempool.h; simplest is to construct CTxMemPool::Options yourself with check_ratio 0 and add entries the way those tests do). Blocks are hand-built (valid merkle root; check what InitData/FillBlock verify and satisfy it; regtest nBits make PoW trivial to grind). The adversary is the peer: wrong/reordered/short/long blocktxn, prefilled index games, mempool/extra_txn decoys. Real 6-byte short-id collisions need 2^24+ work per pair; try a bounded brute force (vary a tx field, a few hundred thousand SipHash evaluations) for a few runs and otherwise exercise the collision paths via duplicate short ids in the announcement; say precisely what you could reach. Oracle: FillBlock returns READ_STATUS_OK => the produced block has exactly the announced header and tx list (compare with the generator's list) and is not mutated; never OK with a different tx list."""),
}

os.makedirs('/verif/build/briefs', exist_ok=True)
for pid, (fname, extra) in EXTRA.items():
    open(f'/verif/build/briefs/{pid}.txt', 'w').write(
        TEMPLATE.format(pid=pid, record=json.dumps(props[pid], indent=1), para=para(pid), fname=fname, low=pid.lower(), extra=extra))
print("wrote", list(EXTRA))
