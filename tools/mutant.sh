#!/bin/bash
# Sensitivity helper: build a private verifsim with ONE mutated /repo source file shadowing its archive member
# and run a property's check against it. /repo itself is not touched.
#   tools/mutant.sh <name> <repo-relative .cpp> '<sed expression>' <PROP> [extra verifsim args...]
# Exit status: that of verifsim (1 = mutant caught).
set -u
NAME=$1; FILE=$2; SED=$3; PROP=$4; shift 4
D=/tmp/mut_$NAME
rm -rf $D; mkdir -p $D
cp /repo/src/$FILE $D/$(basename $FILE)
sed -i "$SED" $D/$(basename $FILE)
if cmp -s /repo/src/$FILE $D/$(basename $FILE); then echo "MUTANT $NAME: sed expression changed nothing"; rm -rf $D; exit 3; fi
diff <(cat /repo/src/$FILE) $D/$(basename $FILE) | head -8
ENG=${ENGINES:-$(ls /verif/src/engines/*.cpp | tr '\n' ' ')}
# the mutated file may include headers relative to its own directory
make -C /verif -j${JOBS:-8} ENGINES="$ENG" OBJ=/verif/build/obj_mut_$NAME BIN=/verif/build/verifsim_mut_$NAME EXTRA_SRCS=$D/$(basename $FILE) CPPFLAGS_EXTRA="-iquote /repo/src/$(dirname $FILE)" > $D/build.log 2>&1 || { echo "MUTANT $NAME: build failed"; tail -20 $D/build.log; exit 4; }
mkdir -p $D/out/replays $D/out/evidence; VERIF_DIR=$D/out /verif/build/verifsim_mut_$NAME run $PROP "$@" > $D/run.log 2>&1
RC=$?
grep -E "^VIOLATION|violation class|SIMULATOR|done:" $D/run.log | head -6
echo "MUTANT $NAME prop=$PROP exit=$RC"
rm -rf $D /verif/build/obj_mut_$NAME /verif/build/verifsim_mut_$NAME
exit $RC
