#!/usr/bin/env python3
"""Regenerates /verif/MANIFEST.json from the tables below (single source of truth) and validates it."""
import json, os, subprocess, sys

VERIF = "/verif"

# property id -> (engine name, level category, level text, level note, technique, DESIGN ref)
CHECKS = {
    "C34": ("compsim/txrequest", "exploration",
            "Seeded search over histories of announcements, request selections, responses, timeouts, disconnects and clock jumps "
            "(forward exactly onto reqtime/expiry instants, and backward) against an announcement-level reference model stepped in lock-step; "
            "exploration is the right level because the property quantifies over unbounded operation histories and clocks.",
            "Trusts the reference model in src/engines/c34_txrequest.cpp; tie-break among equally-preferred peers is read from the tracker's own ComputePriority().",
            "deterministic simulation: real TxRequestTracker under a simulated clock and scripted faulty peers vs. lock-step reference model",
            "DESIGN.md §5 C34"),
}

CHAIN_NOTE = ("Trusts RefChain (src/nodesim/refchain.cpp: own merkle, subsidy, BIP30/34/68/113, maturity and value rules; shares only data types and hashing with /repo) and the generator's "
              "script-validity labels; regtest parameters; single node, cooperative schedule (no worker threads).")
CHAIN_TECH = "deterministic simulation: real node (chainstate, block storage, coins DB) driven by seeded block-tree histories with labelled defects, delivery reordering/duplication, manual invalidation, restarts and clock steps; oracle = executable reference chain model after every operation"
def chain(text, ref):
    return ("nodesim/chain", "exploration", text, CHAIN_NOTE, CHAIN_TECH, ref)
CHECKS.update({
    "C08": chain("Seeded search over block/header delivery histories (orders, duplicates, children before parents, unrequested, invalid blocks of every labelled kind, invalidateblock/reconsiderblock, clean restarts); after every operation the active tip must be model-valid, not under a manual invalidation, and have at least the work of every model-valid block whose whole ancestry the node holds data for. Exploration is the right level: the property quantifies over unbounded delivery histories.", "DESIGN.md §5 C08"),
    "C01": chain("Seeded histories biased to value defects (coinbase +1 sat, in<out by 1 sat, outputs out of range/overflowing) and halving crossings; model verdict vs node verdict in both directions, UTXO set compared coin-for-coin with the model after every tip change and its total against the model's subsidy sum.", "DESIGN.md §5 C01"),
    "C02": chain("Seeded histories biased to spend defects (missing/spent/later-in-block/duplicate/double-spent/unspendable inputs) placed after reorgs and flushes so the coin lives in different cache layers; invalid blocks never active, valid ones never rejected, UTXO equal to the model after every tip change.", "DESIGN.md §5 C02"),
    "C05": chain("Seeded histories biased to nLockTime/BIP68/maturity boundaries: exactly-satisfied shapes must be accepted, one-short shapes must never become active; MTP sequences vary because block timestamps are generator-chosen.", "DESIGN.md §5 C05"),
    "C09": chain("Fork-heavy seeded histories with transactions across fork points, invalidateblock-driven disconnects and forced flushes between connect and disconnect; after every tip change the set read through a CCoinsViewDB cursor equals the model's UTXO(tip) coin-for-coin (value, script, height, coinbase flag).", "DESIGN.md §5 C09"),
})

COMP_TECH = "deterministic simulation: real component under a simulated clock / scripted faulty counterparties / simulated byte pipes, seeded operation+fault histories vs. lock-step reference model"
CHECKS.update({
    "C16": ("crashsim/chainstate", "fault_enumeration",
            "Each run records one seeded on-disk workload (blocks with transactions, reorgs straddling flushes, forced/periodic flushes, clean restarts, tiny coins batches so DB_HEAD_BLOCKS transitions are dense) through the simulated file layer, "
            "then cuts the I/O log at biased crash points (quick) or at EVERY I/O index of the workload (thorough, a third of the runs) under process-kill and power-loss semantics (suffix of unsynced operations dropped, torn tail) and starts a fresh node on each image: "
            "start must succeed without reindex (VerifyDB level 4, all blocks), the coins DB after ReplayBlocks must equal the model's UTXO of a block whose connection had begun before the crash, the tip after reconnecting stored blocks must have at least the work of the last completed full flush, "
            "and re-delivering all blocks must end in the model's state. fault_enumeration because crash points of a recorded workload are a finite space that the thorough tier enumerates completely, on top of seeded workloads.",
            "Power-loss model as stated in the property (suffix of not-yet-synced operations lost; fsync of a file persists its earlier writes and its directory entry; rename/unlink persist with a directory fsync; tears at 512-byte boundaries of an unsynced append). Crash window starts after the data directory exists and the base chain is flushed (database creation is outside the property). "
            "The node is kept in IBD mode so that the asynchronous utxocompact thread never starts; LevelDB's own background thread is real and unscheduled (probe io_from_background_thread reports when it wrote). Trusts RefChain.",
            "deterministic simulation with fault injection: recorded file layer (link-time libc interposition), crash = log cut + directory rebuild + restart of the real node, oracle = reference chain model",
            "DESIGN.md §4.2, §5 C16"),
    "C32": ("compsim/transport", "exploration",
            "Pairs of real V1/V2 transports (and scripted BIP324 peers) over simulated byte pipes; the simulator picks every chunk size and the interleaving of both directions, incl. mid-handshake, and injects bit flips, duplicated segments, truncation. Fault-free: received (type,payload) sequence equals sent, session ids equal, every wire byte equals an independent BIP324 encoder. Faulted v2: the k-th delivered message equals the k-th sent; v1: a delivered payload always matches the header checksum it arrived with.",
            "Independent BIP324 encoder is built on the repo's ChaCha20/Poly1305/HKDF/EllSwift primitives (C49/C50 territory); single-threaded; message types restricted to printable bytes.",
            COMP_TECH, "DESIGN.md §5 C32"),
    "C33": ("compsim/headerssync", "exploration",
            "Real HeadersSyncState with small per-run commitment period / redownload buffer against scripted peers (honest, low-work, chain switch between presync and redownload, altered headers, partial/empty/over-long batches) serving really mined chains with legal and illegal retargets; announcement-level oracle written from the statement (nothing released before the work proof, one continuous chain, each released header followed by a full buffer of commitment-matching headers unless the redownloaded chain reached minimum work, permitted transitions, bounded memory).",
            "Component level only (block index / net_processing not in the loop); retarget interval 4-16 to keep test arithmetic in range; 'more than a full buffer' read as the implementation and its unit test do (header plus successors number more than the buffer size).",
            COMP_TECH, "DESIGN.md §5 C33"),
    "C35": ("compsim/orphanage", "exploration",
            "Real TxOrphanage with small per-run limits, 2-8 peers, hand-built orphans of varied weight/input count; histories of AddTx/AddAnnouncer/EraseTx/AddChildrenToWorkSet/GetTxToReconsider with disconnects (EraseForPeer), blocks (EraseForBlock: include/conflict/unrelated) and flooding as faults; after every op the full announcement set is read back and compared with an announcement-level model: limits respected after each limiting step, orphans vanish only with their last announcement, disconnect/block remove exactly the affected entries, a peer within its own share loses nothing.",
            "Three extra necessary conditions on eviction order (oldest-first per peer, from a worst peer, not more than needed) are taken from the class documentation, not from the statement; configurations with max latency score below the peer count excluded.",
            COMP_TECH, "DESIGN.md §5 C35"),
    "C37": ("compsim/addrman", "exploration",
            "Real AddrMan (deterministic, consistency check after every call) under a simulated clock: Add/Good/Attempt/Connected/SetServices/collision resolution/Select/GetAddr histories over all network types, clock jumps, serialise->new instance (same and changed asmap), peers.dat dump/load with stored-data faults (truncate, byte flip, garbage, stray temp file) and crashes during the dump (simulated file layer: kill and power-loss images at seeded or all points: old file or new file, never a mix).",
            "Times restricted to positive 32-bit values (documented domain of CAddress::nTime); capacity limits (65536/16384) unreachable in bounded runs, only Size == table count <= capacity is checked; power-loss model never makes an un-dir-synced rename durable.",
            COMP_TECH + "; crash images via simulated file layer", "DESIGN.md §5 C37"),
    "C60": ("compsim/banman", "exploration",
            "Real BanMan on banlist.json under a simulated clock: Ban (address/subnet, relative/absolute/default durations), Unban, Discourage, ClearBanned, clock jumps exactly onto expiry +-1 s, clean restart, crash restart (no destructor), deleted/torn ban file; after every mutating op every reference entry is re-queried at its network/last/sibling/first-host-bit addresses and embedded forms against an own bit-wise prefix matcher; string and BIP155 round trips of every generated address/subnet are checked in passing.",
            "Only the ban-store part of C60 has a clock/restart/fault in it; the pure round-trip clauses are exercised only as far as the ban store touches them. Discouragement checked only in the 'stays discouraged' direction within filter capacity. One known finding (fc-prefixed IPv6 subnets with CJDNS reachable) is listed in known_findings.txt.",
            COMP_TECH, "DESIGN.md §5 C60"),
    "C22": ("nodesim/mempool", "exploration",
            "Seeded mempool histories on a real node (submissions of 11 shapes incl. replacements aimed at the fee threshold, TRUC/dust topologies, invalid and non-standard transactions; packages; prioritisation; blocks confirming a subset of the mempool and conflicting with the rest; reorgs; clock jumps past expiry; small size limits) with CTxMemPool::check on every step; after every operation the public mempool contents are re-derived naively (inputs in model UTXO(tip) or created by another entry, no double spend, parent/child links, ancestor/descendant/cluster statistics, totals, fees) and every entry is judged for inclusion at tip+1 by the model (finality, maturity, BIP68, script label) and by TestBlockValidity of a block made of all entries.",
            "Trusts RefChain and the generator's script labels; one node, cooperative schedule.",
            "deterministic simulation: real node + mempool driven by seeded submission/block/reorg/clock histories; oracle = naive recomputation from public mempool contents + reference chain model + the node's own TestBlockValidity",
            "DESIGN.md §5 C22"),
    "C14": ("threadsim/parallel-validation", "exploration",
            "The subject node's real script-check workers (CCheckQueue) and prevout-fetch workers (ThreadPool + CoinsViewOverlay) run as real threads of which exactly one runs at a time; the seed decides every switch (uniform preemption or PCT priorities, or cooperative) at every intercepted pthread/futex call and at the guarded VERIF_YIELD points inside the lock-free claim/ready protocol. A serial twin (0/0 workers) receives the same deliveries: verdict, reject result and tip must agree for every schedule and worker count, UTXO hashes must agree, the reference chain model checks the final UTXO set, the simulator reports deadlocks, and a vector-clock happens-before checker fed by the guarded VERIF_ACCESS/VERIF_SYNC annotations reports unordered accesses to InputToFetch::coin and m_inputs.",
            "Threads are serialised: weak-memory effects and torn plain accesses are invisible (a release->relaxed weakening would need the TSan stress mode, which is not built); races are decided only for the annotated fields. Needs the three guarded hook commits in /repo (BITCOIN_VERIF).",
            "deterministic simulation: real threads under a token-passing scheduler (link-time interposition of pthread/futex/sem/sleep/clock), seeded schedules, serial twin node as oracle + happens-before race check",
            "DESIGN.md §4.5, §5 C14"),
    "C36": ("peersim/punishment", "exploration",
            "One real node (validation + mempool + PeerManager + CConnman bookkeeping) with 2-8 scripted peers over connection types x permissions x local/routable addresses x blocks-only mode; seeded events: tx messages of 11 kinds, full blocks with one consensus defect built on the tip, valid blocks, headers with invalid PoW / broken continuity, noise, msghand ticks and clock steps. After every event fDisconnect and the discouragement filter of every peer are compared with the statement: a tx-allowed peer whose only input was tx messages and whose msghand ticks saw no clock advance is never disconnected or discouraged; noban/manual peers that sent an invalid block or invalid-PoW headers are not punished; any other such peer is disconnected after the next SendMessages and discouraged iff its address is not local.",
            "Outgoing messages are observed through the CaptureMessage test seam, incoming ones are framed by the node-side V1 transport; sockets and the net/msghand threads are replaced by simulator events. Attribution of a flag change uses the mock clock: timeouts need the clock to move, punishments happen in the tick after the offending message.",
            "deterministic simulation: real P2P message layer of one node with scripted peers, seeded message/tick/clock schedule; oracle = the statement's punishment rules evaluated after every event",
            "DESIGN.md §4.4, §5 C36"),
    "C58": ("nodesim/unrequested-blocks", "exploration",
            "Seeded histories of header announcements and ProcessNewBlock(force_processing=false) deliveries of blocks below/equal/above the tip's work, at heights tip+287/288/289, with minimum-chain-work knobs around the boundary, followed by requested deliveries; storage is observed through the block index flags and through the engine's own parser of the XOR-obfuscated blk files. stored => (work >= tip, height <= tip+288, chain work >= minimum); dropped => no failure flag, no invalid verdict, and the later requested delivery is accepted; plus (knob exact=1) eligible => stored.",
            "All regtest blocks have equal work, so work comparisons coincide with height comparisons; 'requested' is the force_processing argument (net_processing's in-flight tracking is not in the loop).",
            CHAIN_TECH, "DESIGN.md §5 C58"),
    "C13": ("nodesim/twin-caches", "exploration",
            "Twin run: node A with 2 KiB..1 MiB signature/script-execution caches, node B with minimum tables that are additionally flooded with junk before every call, same seeded operation sequence (new/variant/replayed-signature transactions of ten script kinds incl. policy-only-invalid ones, test-accept, submit, blocks built from the mempool with TestBlockValidity 0-2 times before delivery, reorgs, invalidate/reconsider, CSV activating mid-history so the consensus flag set changes while results are cached): every verdict and reject reason of A equals B's and the model's, mempools and tips equal, no script-invalid transaction or block is ever accepted.",
            "Different spent outputs for one wtxid (needs BIP30 duplicates) is not generated; parallel script checking is C14's business.",
            CHAIN_TECH + "; twin node without effective caches as oracle", "DESIGN.md §5 C13"),
    "C26": ("nodesim/mempool-rbf", "exploration",
            "MempoolSim histories biased to replacements plus four scenario ops (multi-conflict replacement with fees at threshold -1/0/+1, TRUC sibling eviction, package RBF, conflicts with 97-103 clusters); for every accepted single transaction or package that conflicted with the pre-call snapshot the statement's rules are re-derived naively from before/after snapshots: evicted set = direct conflicts (+ TRUC sibling) closed under descendants = reported replaced list, nothing else left the mempool, fees >= modified fees of the evicted set + incremental relay fee for own size, no input spends an evicted output, <= 100 conflicting clusters, feerate diagram strictly improves (own exact-rational comparison); reverse check: a rejection for 'insufficient fee' must really be below the threshold.",
            "Whole-mempool diagrams are compared (the node compares affected clusters only), cut where cumulative fee starts to fall; test-accept acceptances get only the fee/spend/cluster clauses.",
            "deterministic simulation: real node + mempool under seeded replacement histories; oracle = naive recomputation from mempool snapshots before/after each submission",
            "DESIGN.md §5 C26"),
    "C04": ("nodesim/block-mutation", "exploration",
            "For generated valid blocks of 1-300 transactions the engine builds same-header variants (every root-preserving CVE-2012-2459 duplication pattern at all odd levels, witness stripped/altered/added, coinbase reserved value games, wrong/missing/shadowed commitments, the 64-byte-transaction collapse with ground txids, list edits) and delivers variant and genuine copies in seeded orders (header first, variant 0-3 times before/between/after the genuine block, forced or unrequested, withheld and re-delivered later, across reorgs and restarts). After every delivery: the genuine hash is never marked failed and a forced genuine delivery ends stored; what is stored under the hash reads back as exactly the genuine list; a variant is never connected or reported valid; a verdict for a root-indistinguishable variant is BLOCK_MUTATED; IsBlockMutated and FillBlock reject variants; merkle roots, mutation flags and merkle paths equal the model's own implementation.",
            "The P2P block/cmpctblock handlers are not driven (their gates IsBlockMutated / FillBlock are called directly); no manual invalidation or pruning in the workload.",
            CHAIN_TECH, "DESIGN.md §5 C04"),
    "C27": ("nodesim/mempool-limits", "exploration",
            "MempoolSim histories biased to limits plus own ops (coin splits, fill bursts crowded just above the rolling minimum fee, chain/fan-out/merge bursts up to the cluster limits, 11 TRUC family modes incl. sibling eviction, 11 ephemeral-dust family modes incl. prioritisation of dusty parents) with small mempools (45-240 kB) and small cluster count/size limits. After every acceptance: memory usage at the instant the acceptance completed <= max, every naive connected component within the count and size limits, after a size eviction GetMinFee > aggregate feerate of the evicted set; with standardness on and no disconnect in the history the TRUC topology rules; dust outputs only with zero base and modified fee and a single dust output, children of dusty unconfirmed parents spend the dust.",
            "Cluster size is judged the way the node enforces it (summed weight against 4x the limit; the sum of vsizes may exceed the limit by rounding). Usage is read before any relinearising query (TrimToSize compares usage while the cut cluster is not yet relinearised; a later query can lift usage a few hundred bytes above max - noted, not claimed).",
            "deterministic simulation: real node + mempool under seeded submission histories aimed at the limits; oracle = naive recomputation from mempool snapshots + removal notifications", "DESIGN.md §5 C27"),
    "C28": ("nodesim/mempool-testaccept", "exploration",
            "MempoolSim histories biased to test-accept plus edge-script coins (9 P2WSH witness scripts) spent in 25 variants labelled consensus-valid/invalid and policy-compliant/not from the BIPs, re-tests of every transaction ever built, unbroadcast marks, small-mempool runs where trimming and a rolling minimum fee occur. Every single-tx test_accept must leave entries, fees, usage, min fee, feerate diagram, prioritisation, unbroadcast set, sequence and totals unchanged; the real submission right after must give the same result type and reject reason (unless the mempool is at capacity); every policy-accepted transaction must be consensus-valid by label, by the model (final, mature, BIP68, value-conserving) and by TestBlockValidity of a block of it with its in-mempool ancestors.",
            "One known finding (lazy expiry: test_accept VALID, real submission 'mempool full') is listed in known_findings.txt. Package test_accept is only probed; policy=>consensus is decided for scripts the generator can build.",
            "deterministic simulation: real node + mempool under seeded submission histories; oracle = full mempool fingerprint before/after, label + reference model + TestBlockValidity", "DESIGN.md §5 C28"),
    "C53": ("nodesim/versionbits", "exploration",
            "Real node with per-run TESTDUMMY BIP9 parameters (start/timeout/min_activation_height incl. ALWAYS/NEVER) and seeded block trees of 4-8 periods: signalling counts 107/108/109, period-end MTP aimed at start/timeout -1/0/+1, forks inside periods, reorgs across boundaries, clean restarts (cold cache), cache clears, invalidateblock; every sampled block is answered through the node's warm cache, a fresh cache, a run-long private cache and a raw condition checker: all must agree with each other (query-order independence) and with an independent BIP9 model recomputed from genesis over the reference tree (state, next state, since, statistics, active_since); same state within a period; ACTIVE/FAILED absorbing. A second per-run deployment with period 1-200 / threshold 0..period goes through a raw checker.",
            "Timestamps are constrained by what the node indexes (time > MTP(parent)); other periods than 144/108 only through the raw-checker path; cache concurrency not explored.",
            CHAIN_TECH + "; independent BIP9 model", "DESIGN.md §5 C53"),
    "C38": ("compsim/cmpctblock", "exploration",
            "Real PartiallyDownloadedBlock/CBlockHeaderAndShortTxIDs/BlockTransactionsRequest (every message round-tripped through its wire codec) against a standalone mempool and extra-transaction ring churned by seeded ops, an adversarial announcer (prefilled-index games, tx-list lies incl. CVE-2012-2459 tail duplication, duplicate/decoy/random short ids) and an adversarial responder (wrong/reordered/short/long blocktxn); FillBlock == OK implies exactly the announced header and transaction list, merkle-unmutated, witness commitment intact; an honest announcement + honest response of a well-formed block must reconstruct.",
            "Component level only: the in-situ clause (block stored under hash H at a real node) is not decided here. Real 48-bit short-id collisions are reached through one offline-searched fixture (two pool transactions colliding under a fixed block key); collisions involving a block transaction are out of reach.",
            COMP_TECH, "DESIGN.md §5 C38"),
    "C52": ("compsim/http", "exploration",
            "The same request byte stream (grammar-generated: pipelined requests, Content-Length and chunked bodies with extensions/trailers, 15 line-level and 12 chunk-framing defects, header sections padded to the 8192-byte limit, byte-level mutations) is delivered 1-11 times under different fragmentations (fixed k, random, cuts at line/chunk boundaries +-2, single cut anywhere) to the real incremental parser, and in server mode to the real HTTPServer socket loop over simulated sockets (short sends, EAGAIN, EPIPE, resets, worker latency): every delivery must dispatch the same request sequence / same error as single-chunk delivery and as an independent whole-stream reference parser; disallowed client addresses get nothing; the JSON-RPC handler runs only with valid credentials.",
            "The static URL dispatcher and the HTTP worker thread pool are replaced by a recording dispatcher answering at I/O-loop iteration boundaries (no real threads); httprpc.cpp is compiled a second time inside the engine (internal linkage), with its 250 ms sleep turned into simulated time; idle timeout (real steady clock) disabled.",
            COMP_TECH + " and simulated sockets (Sock seam)", "DESIGN.md §5 C52"),
    "C57": ("nodesim/assumevalid", "exploration",
            "Real node with per-run assumevalid (descendant/self/ancestor/sibling/unknown/unannounced/zero/unset) and minimumchainwork (equal, +-1..2 units, far) over seeded trees of 2100-4500 headers with one probe block at height 101-280 carrying an invalid signature (P2WPKH/P2TR/P2PKH/P2SH-P2WPKH/P2WSH), buried 0..2018+ blocks (aimed at 2015/2016/2017 and the two-week equivalent-time boundary), competing header branches (more/less/equal work, forking below/above the probe), header/block delivery orders, reorg away and back. Whenever the probe block is connected without script checks, the model's five conditions (assumed-valid header known, probe is its ancestor, probe under a most-work known header, that header >= minimumchainwork, > 2 weeks of equivalent work on top) must all hold, each with its own violation class.",
            "One-directional (only-if) as stated; the converse (scripts really skipped when all hold) is only counted. Regtest difficulty is constant; script-check workers 0; no restart/reindex/assumeutxo in this engine.",
            CHAIN_TECH + "; oracle = independent work arithmetic over the model's header tree", "DESIGN.md §5 C57"),
    "C55": ("nodesim/mempool-persist", "fault_enumeration",
            "Three real nodes (source, load target, twin) on one generated chain; seeded mempool histories on the source (chains, prioritisation incl. absent txids, unbroadcast marks, clock to the expiry boundary +-1 s, blocks, reorgs), then DumpMempool through simfs with ENOSPC/short write/fsync EIO/disk-full-for-good and enumeration of every kill and power-loss image of the dump's file operations; LoadMempool through the FopenFn seam from intact, re-keyed, v1, short-read, truncated (12 structural offset classes and full sweeps), EIO, byte-flipped, bad-version/key and missing files into a target that may already hold entries. Dump file == pool (wtxid, time, delta; parents first; absent deltas; unbroadcast set); failed dump leaves the previous complete file; every crash image is the old or new complete file; intact load == twin's normal submission of the unexpired records in order with saved time/delta/unbroadcast; damaged load returns false on strict prefix/EIO/missing, adds only what the twin accepts and loses no pre-existing entry except by expiry or an accepted conflict.",
            "Loading into the very node that dumped is covered by a fresh node on the same chain; mempool size/min-fee knobs not varied; power-loss semantics are the simfs model (see C16).",
            "deterministic simulation with fault injection: real DumpMempool/LoadMempool over simfs crash images and a scripted FopenFn; oracle = own file parser + twin node", "DESIGN.md §5 C55"),
    "C17": ("crashsim/blockstore", "fault_enumeration",
            "On-disk regtest node with 64 KiB block files and random XOR obfuscation; seeded batches of 2-60 blocks of 200 B..260 KB (thorough 940 KB) delivered in four orders across file boundaries, reorg branches, flushes, clean restarts, manual pruning and re-delivery of pruned blocks. Intact records: ReadBlock (3 forms), ReadRawBlock (whole and parts) and ReadBlockUndo equal the generator's block / the model's spent coins, and an own decoder (own XOR by file offset) finds magic, size, bytes and the undo checksum SHA256d(prev||body) at the indexed position. Damage (bit flip, zeroed 512-byte sector, truncation; per run one record gets a flip at EVERY framing/header/undo-framing/checksum byte, every field-boundary truncation and every overlapping sector) under the running node or across a restart: changed magic/header/size/undo body/undo checksum must be read failures, untouched records still read intact; after invalidateblock + damage + reconsiderblock a block whose record changed is not in the active chain. Write faults (ENOSPC, EIO, short write, fsync EIO, fallocate ENOSPC at the n-th file operation of ProcessNewBlock or of the flush, in a forked child) must surface loudly and every stored entry must read back identical after restart.",
            "Two known findings (size field not validated; coinbase-witness-only damage re-connected) are listed in known_findings.txt and raised as deferred violations at the end of a run so that they mask no other clause. Failed directory fsync / fallocate are advisory in the tree; reindex and signet not covered.",
            "deterministic simulation with fault injection: real block storage over the recorded file layer, seeded and per-byte enumerated corruptions, injected write faults; oracle = generator bytes + reference chain model + own on-disk decoder", "DESIGN.md §5 C17"),
    "C15": ("compsim/coins-layers", "fault_enumeration",
            "1-3 real CCoinsViewCache / CoinsViewOverlay layers over a real CCoinsViewDB (LevelDB in memory, or on disk through the recorded file layer); dense seeded sequences (3-2500 ops) of AddCoin (incl. legal/illegal overwrite), SpendCoin, all five lookups, Uncache, Sync, Flush, push/pop of layers, Reset, SetBestBlock over 1-12 outpoints with tiny DB batch sizes; after EVERY operation every layer's PeekCoin for every outpoint equals a per-layer map model, reads equal the model, after Flush/Sync parent == child and a DB cursor scan equals the model DB, Uncache/Reset contracts, own recomputation of cachedCoinsUsage / DynamicMemoryUsage / dirty count, the FRESH/DIRTY entry-state contract against the model's parent view, SanityCheck. Faults: dirty restart (caches dropped, DB reopened) and a crash at seeded or (thorough) EVERY I/O index inside every CCoinsViewDB::BatchWrite under kill and power-loss semantics: the image must be the old state, the new state, or a marked transition (head blocks set, best block null, every entry old or new).",
            "Only the top layer is mutated while children exist (API contract); operation sequences are densely sampled, not enumerated; the overlay runs without worker threads here (threads: C14).",
            "deterministic simulation with fault injection: real cache stack + LevelDB over simfs, seeded operation histories, enumerated crash points inside batch writes; oracle = per-layer map model", "DESIGN.md §5 C15"),
    "C20": ("nodesim/utxo-snapshot", "exploration",
            "A source node rebuilds the regtest chain whose height-110 (or 200) UTXO hash is the compiled-in assumeutxo commitment and writes real snapshots; a target node (blocks 0..base+extra connected, headers known or not, a competing fork known or active, invalidated blocks, on-disk or in-memory) is offered the snapshot under 27 mutation kinds (every single field through an own encoder, equivalent re-encodings, bit flips/byte sets/truncations/insertions/deletions by field class or swept over every byte of one coin record or of the metadata, appended bytes) through plain, short-read, EOF-at-offset and EIO-at-offset streams. An own decoder reads what reaches the loader: activation must fail when the bytes are malformed, the base is not an assumeutxo block, its header unknown or invalid, its work not above the active tip's, or the decoded coin set differs from the committed one; after every rejection no snapshot chainstate directory is left and chainstates, tip, mempool, block-index flags, best header and the existing UTXO set (coin by coin against the model) are unchanged; the unmutated file on a clean target must activate onto exactly the committed set; background validation is marked VALIDATED only if the fully validated set at the base hashes to the commitment (corrupted background coins must not validate).",
            "One genuine defect was found and repaired (fix commit in /repo: equal-work base on a competing chain was accepted); listed as fixed in known_findings.txt. Files with duplicate identical records and a matching count activate (loaded set is still the committed one: legal). Restart with a snapshot chainstate is outside the statement.",
            "deterministic simulation with fault injection: real ActivateSnapshot/MaybeValidateSnapshot on seeded node states with mutated snapshot streams and injected read faults; oracle = own snapshot decoder + reference chain model", "DESIGN.md §5 C20"),
    "C65": ("threadsim/waitnext", "exploration",
            "Real threads under the seeded scheduler: 1-3 waiter threads call node::WaitAndCreateNewBlock (timeouts 0..max, fee thresholds 0/1 sat/k/MAX_MONEY, stale or fresh templates) against a real node with KernelNotifications while the driver thread mines blocks on the tip (timestamps now / now-20 min +-3 s / now+30 s), makes natural reorgs and stale siblings, adds and replaces transactions so that mempool fees land exactly at / one below / one above previous fees + threshold, and calls InterruptWait; every clock is the simulator's (sleeps of 0.999999/1/1.000001 s, clock jumps of 1 ms-21 min, spurious condition-variable wake-ups as fault knobs); policies cooperative / preemptive / PCT re-drawn at the start of the concurrent phase. Post-hoc over the recorded event order: a returned template's parent was the tip at some instant inside the call; a same-tip template needs the fee rise or a tip older than 20 min; null needs the timeout passed or an interrupt; no null when the tip changed or the fee condition held before the deadline; every call ends by its deadline and within one tick of a tip change, interrupt or fee rise.",
            "Promptness is decided to one 1 s tick (a lost notify is masked by the poll); the 20-minute rule only on regtest; shutdown interrupt and the BlockTemplateImpl wrapper are bypassed.",
            "deterministic simulation: real threads scheduled by seed at intercepted pthread/futex/clock calls with simulated time and clock faults; oracle = post-hoc check of the recorded call/notification history", "DESIGN.md §5 C65"),
    "C44": ("walletsim/balances", "exploration",
            "A real descriptor wallet (production SQLite) attached through interfaces::Chain to a real regtest node since genesis; seeded histories of 18-90 operations: external receives and their double-spends (RBF or held for a block), wallet sends (self-recipients, subtract-fee, chaining on own unconfirmed change or on unconfirmed receives, all change types), wallet-signed double-spends held for a block / replaced / committed, joint transactions, blocks of seeded mempool subsets and held conflicts, reorgs of depth 1-6 re-including seeded subsets, invalidateblock/reconsiderblock, abandontransaction, clock jumps that make mempool expiry run, trimming, unload + offline history + load with rescan, node restart, rescanblockchain, resubmission; coinbases straddle the 100/101 confirmation boundary. After every operation (signals drained): trusted / untrusted-pending / immature balances equal a pure recomputation from the model's UTXO(tip) + the real mempool for the wallet's scripts; AvailableCoins (safe and unsafe) equals the model's coin list (outpoint, value, script, depth, safe flag); coins spent by chain-conflicted or abandoned transactions are restored.",
            "Validation-interface callbacks run on a deferred runner that drains when cs_main is released (as the scheduler thread would); AvailableCoins additionally depends on which unconfirmed transactions the wallet knows (recorded notification history). One known finding (transaction committed on an already chain-conflicted parent keeps its other inputs reserved). No storage faults here (C43).",
            "deterministic simulation: real wallet + real node under seeded chain/mempool histories; oracle = recomputation from the reference chain model and the mempool", "DESIGN.md §5 C44"),
    "C63": ("nodesim+threadsim/validation-notifications", "exploration",
            "A recording CValidationInterface on a real node under MempoolSim histories with chain operations inserted (reorgs delivered in order / reversed / twice, defective blocks mid-branch, out-of-order delivery, invalidateblock with more than 10 disconnections, reconsiderblock, competing branches and transactions delivered from two driver threads). 60 % of runs use the immediate runner (real tip sampled inside every callback, notifications attributed per submission); 40 % run the real CScheduler service thread + SerialTaskRunner under the seeded thread scheduler (cooperative / preemptive / PCT, spurious wake-ups) with lazily drained queues. Oracle: BlockDisconnected only of the folded tip and BlockConnected only onto it; the folded steps equal a prefix of the true tip-change sequence (rebuilt from samples taken under cs_main) and all of it after a drain; reported blocks byte-identical to the generator's with matching index entry; UpdatedBlockTip names the folded tip; MempoolTransactionsRemovedForBlock before its BlockConnected with exactly the block's mempool transactions; per txid Added/Removed alternate starting with Added, same witness, reason never 'block', mempool sequence strictly increasing; after a drain the folded mempool equals the real one.",
            "One known finding (single submission evicted by its own size limiter: Removed without Added). Not covered: IBD, restarts, background chainstate role, several subscribers; threads are serialised by the scheduler (no weak-memory effects).",
            "deterministic simulation: real validation signals on the immediate runner or on the real scheduler thread scheduled by seed; oracle = fold of the recorded notification history against the sampled truth", "DESIGN.md §5 C63"),
    "C39": ("peersim+compsim/origin-privacy", "exploration",
            "peersim (5/6 of runs): real PeerManager with private broadcast enabled and 1-16 scripted peers of every connection flavour; the simulator is the message-handler loop (one step = one ProcessMessages or SendMessages call for one peer, a local submission through node::BroadcastTransaction in both modes, a block, a clock jump driving the Poisson inv timers); getdata in all three forms biased to the newest and to private transactions, mempool/feefilter/inv messages, private connections with right/wrong getdata and pong, echo from a public peer, public re-submission. A tx message to a non-private peer is legal only if the transaction is in the most recent block or entered the mempool before the node's last announcement round for that peer; a privately submitted transaction is not in the mempool, not in any inv or tx to a non-private peer until echoed or re-submitted; each private connection carries at most one single-entry inv of a private transaction and serves only it, only on request. compsim (1/6): real PrivateBroadcast against a counting model with small or production limits: queue <= cap, picks since (re-)add <= max attempts, results match the documented contract.",
            "An announcement round in which every candidate was filtered (known filter, fee filter, empty BIP35 reply) sends no inv but advances the peer's last-announced sequence in the real code; the oracle counts such a round as 'announcements sent' only if getpeerinfo's last_inv_sequence changed AND a cause was observed (stated reading of the property; the unconditional-advance mutant is still caught). Scheduler-driven re-attempt tasks and ThreadPrivateBroadcast are replaced by simulator steps; no reorgs.",
            "deterministic simulation: real net_processing with scripted peers where the simulator decides every message-handler step and clock jump; oracle = harness step counters over captured messages + counting model", "DESIGN.md §5 C39"),
    "C23": ("nodesim/block-template", "exploration",
            "MempoolSim histories plus own ops (nLockTime at height/MTP -1/0, sigop-heavy outputs, prioritisation, reorgs to MTP+1-time branches lowering the MTP) with the clock stepping backwards before template creation; per-template option space: max weight aimed at the weight of the first k baseline transactions +-1..3, reserved weight, block_min_fee_rate, coinbase sigop reservation aimed at 80000 - sigops(first k) +-1..5, use_mempool, 7 coinbase scripts. Every template: on tip, one coinbase, no duplicates, parents first, inputs in model UTXO or earlier in the template, fees == inputs - outputs, own weight sum + reserved <= max, own sigop count + reservation <= 80000, every tx final for tip+1 at MTP by the model, coinbase == subsidy + fees, TestBlockValidity on the raw and the solved block, model verdict VALID, and ProcessNewBlock makes it the tip of a cold twin node (or of the node itself).",
            "Landing exactly on a limit is within the limit; block_min_fee_rate and per-tx sigop entries are not in the statement and not decided.",
            "deterministic simulation: real miner + mempool + validation under seeded histories and clock faults; oracle = own weight/sigop/finality/fee recomputation + reference chain model + twin node", "DESIGN.md §5 C23"),
    "C29": ("nodesim/packages", "exploration",
            "MempoolSim histories plus own package ops: DAG packages of 1-28 transactions in 7 topologies x 8 mutations (shuffle, swap, reverse, duplicate, same-txid-different-witness, internal conflict, extra conflicting tx) x 6 fee modes, members pre-submitted / mined / replaced by witness twins, replays of earlier packages after blocks and reorgs, packages aimed at total weight 404000 +-1..4, small-mempool runs where LimitMempoolSize evicts members. A package violating count/weight/duplicate/conflict/order/child-with-parents is never evaluated and changes nothing; after every call no member is in the mempool while an in-package parent is neither in the mempool nor confirmed (model); VALID/MEMPOOL_ENTRY => wtxid present, DIFFERENT_WITNESS => txid present, INVALID => wtxid absent.",
            "A single transaction above the package weight limit is evaluated (and refused as tx-size) by documented design in packages.cpp; exempted. test_accept does not require child-with-parents (documented).",
            "deterministic simulation: real node + mempool under seeded package histories; oracle = own package-rule checker + mempool snapshots + reference chain model", "DESIGN.md §5 C29"),
})

PURE = "pure function of its input: no schedule, clock, fault, peer or store in it (DESIGN.md §6)"
NOT_APPLICABLE = {
    "C03": "CheckTransaction is a pure predicate on one transaction; " + PURE,
    "C06": "block structure/size/sigop limits are a pure function of the block and its parent's height; " + PURE,
    "C07": "PoW/target/retarget arithmetic and compact encoding are pure; regtest does not retarget; " + PURE,
    "C10": "signature hash + verification; " + PURE,
    "C11": "script flag monotonicity is a pure function of (scripts, witness, tx, flags); " + PURE,
    "C12": "script interpreter semantics; " + PURE,
    "C18": "coin/undo (de)compression round trip; " + PURE,
    "C24": "cluster linearisation quality is a pure function of the dependency graph and budget; " + PURE,
    "C25": "TxGraph is a single-threaded in-memory structure with no clock, I/O or peers; an operation history is its only input (no fault or schedule to inject)",
    "C30": "feerate arithmetic; " + PURE,
    "C31": "subsidy schedule is a pure function of height; " + PURE,
    "C40": "coin-selection algorithms are pure functions of the pool and target (their RNG is an argument); " + PURE,
    "C45": "descriptor/address/BIP32 round trips; " + PURE,
    "C46": "signing/satisfaction is a pure function of script, keys, preimages; " + PURE,
    "C47": "PSBT encode/merge/finalise; " + PURE,
    "C48": "serialisation and text encodings; " + PURE,
    "C49": "hash/cipher primitives (backend selection is a configuration, not a schedule); " + PURE,
    "C50": "secp256k1 arithmetic; " + PURE,
    "C51": "probabilistic filters are pure functions of the inserted set; " + PURE,
    "C54": "block-index navigation and chainwork are pure functions of the tree; " + PURE,
    "C59": "SelectNodeToEvict is a pure function of the candidate vector; " + PURE,
    "C61": "containers and the pool allocator: in-memory, single-threaded, no failure path claimed; " + PURE,
}
NOT_BUILT = "simulation designed in DESIGN.md §5 but its check is not built yet, so nothing is claimed"


def main():
    props = [json.loads(l)["id"] for l in open(f"{VERIF}/properties.jsonl")]
    checks = []
    na = []
    for pid in props:
        if pid in CHECKS:
            eng, level, text, note, tech, ref = CHECKS[pid]
            checks.append({
                "property_id": pid,
                "quick_cmd": f"./check {pid} quick",
                "thorough_cmd": f"./check {pid} thorough",
                "evidence_file": f"/verif/evidence/{pid}.json",
                "replay_cmd_template": "./check --replay {path}",
                "engine": eng,
                "level_claimed": {"category": level, "text": text, "design_ref": ref},
                "level_note": note,
                "technique": tech,
            })
        elif pid in NOT_APPLICABLE:
            na.append({"property_id": pid, "reason": NOT_APPLICABLE[pid]})
        else:
            na.append({"property_id": pid, "reason": NOT_BUILT})
    hooks_commits = []
    hf = f"{VERIF}/hooks_commits.txt"
    if os.path.exists(hf):
        hooks_commits = [l.split()[0] for l in open(hf) if l.strip() and not l.startswith("#")]
    engines = {}
    for pid, c in CHECKS.items():
        engines.setdefault(c[0], []).append(pid)
    manifest = {
        "version": 1,
        "setup_cmd": "./check setup",
        "hooks": {
            "guard": "BITCOIN_VERIF",
            "enable": "cmake -S /repo -B /verif/build/hooks -DAPPEND_CPPFLAGS=-DBITCOIN_VERIF (done by ./check setup; every check re-runs ninja there, so edits to /repo's working tree are compiled in)",
            "baseline_off_cmd": "cmake --build /repo/_build -j16 && ctest --test-dir /repo/_build -j8 --timeout 900",
            "source_commits": hooks_commits,
            "add_only": True,
        },
        "engines": [{"name": n, "path": "/verif/src", "serves_properties": sorted(p), "kind_free_text": "deterministic simulation with fault injection (verifsim)"} for n, p in sorted(engines.items())],
        "checks": checks,
        "not_applicable": na,
        "notes": "All checks are `./check <ID> <tier>`: incremental rebuild of /repo's working tree with -DBITCOIN_VERIF, then the seeded simulation batch. Exit 0 held / 1 VIOLATION / 2 simulator or build fault. VERIF_SEED selects the batch; replay files under /verif/replays.",
    }
    out = f"{VERIF}/MANIFEST.json"
    json.dump(manifest, open(out, "w"), indent=1)
    open(out, "a").write("\n")
    try:
        import jsonschema
        jsonschema.validate(manifest, json.load(open("/root/.vp/MANIFEST.schema.json")))
        print(f"MANIFEST.json valid: {len(checks)} checks, {len(na)} not_applicable")
    except ImportError:
        print("jsonschema not available; wrote without validation")


if __name__ == "__main__":
    main()
