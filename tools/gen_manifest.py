#!/usr/bin/env python3
"""Regenerates /verif/MANIFEST.json from the tables below (single source of truth) and validates it."""
import json, os, subprocess, sys

VERIF = "/verif"

# property id -> (engine name, level category, level text, level note, technique, DESIGN ref)
CHECKS = {
    "C34": ("compsim/txrequest", "exploration",
            "Seeded search over histories of announcements, request selections, responses, timeouts, disconnects and clock jumps "
            "(forward exactly onto reqtime/expiry instants, and backward) against an announcement-level reference model stepped in lock-step; "
            "exploration is the right level because the property quantifies over unbounded operation histories and clocks.",
            "Trusts the reference model in src/engines/c34_txrequest.cpp; tie-break among equally-preferred peers is read from the tracker's own ComputePriority().",
            "deterministic simulation: real TxRequestTracker under a simulated clock and scripted faulty peers vs. lock-step reference model",
            "DESIGN.md §5 C34"),
}

CHAIN_NOTE = ("Trusts RefChain (src/nodesim/refchain.cpp: own merkle, subsidy, BIP30/34/68/113, maturity and value rules; shares only data types and hashing with /repo) and the generator's "
              "script-validity labels; regtest parameters; single node, cooperative schedule (no worker threads).")
CHAIN_TECH = "deterministic simulation: real node (chainstate, block storage, coins DB) driven by seeded block-tree histories with labelled defects, delivery reordering/duplication, manual invalidation, restarts and clock steps; oracle = executable reference chain model after every operation"
def chain(text, ref):
    return ("nodesim/chain", "exploration", text, CHAIN_NOTE, CHAIN_TECH, ref)
CHECKS.update({
    "C08": chain("Seeded search over block/header delivery histories (orders, duplicates, children before parents, unrequested, invalid blocks of every labelled kind, invalidateblock/reconsiderblock, clean restarts); after every operation the active tip must be model-valid, not under a manual invalidation, and have at least the work of every model-valid block whose whole ancestry the node holds data for. Exploration is the right level: the property quantifies over unbounded delivery histories.", "DESIGN.md §5 C08"),
    "C01": chain("Seeded histories biased to value defects (coinbase +1 sat, in<out by 1 sat, outputs out of range/overflowing) and halving crossings; model verdict vs node verdict in both directions, UTXO set compared coin-for-coin with the model after every tip change and its total against the model's subsidy sum.", "DESIGN.md §5 C01"),
    "C02": chain("Seeded histories biased to spend defects (missing/spent/later-in-block/duplicate/double-spent/unspendable inputs) placed after reorgs and flushes so the coin lives in different cache layers; invalid blocks never active, valid ones never rejected, UTXO equal to the model after every tip change.", "DESIGN.md §5 C02"),
    "C05": chain("Seeded histories biased to nLockTime/BIP68/maturity boundaries: exactly-satisfied shapes must be accepted, one-short shapes must never become active; MTP sequences vary because block timestamps are generator-chosen.", "DESIGN.md §5 C05"),
    "C09": chain("Fork-heavy seeded histories with transactions across fork points, invalidateblock-driven disconnects and forced flushes between connect and disconnect; after every tip change the set read through a CCoinsViewDB cursor equals the model's UTXO(tip) coin-for-coin (value, script, height, coinbase flag).", "DESIGN.md §5 C09"),
})

PURE = "pure function of its input: no schedule, clock, fault, peer or store in it (DESIGN.md §6)"
NOT_APPLICABLE = {
    "C03": "CheckTransaction is a pure predicate on one transaction; " + PURE,
    "C06": "block structure/size/sigop limits are a pure function of the block and its parent's height; " + PURE,
    "C07": "PoW/target/retarget arithmetic and compact encoding are pure; regtest does not retarget; " + PURE,
    "C10": "signature hash + verification; " + PURE,
    "C11": "script flag monotonicity is a pure function of (scripts, witness, tx, flags); " + PURE,
    "C12": "script interpreter semantics; " + PURE,
    "C18": "coin/undo (de)compression round trip; " + PURE,
    "C24": "cluster linearisation quality is a pure function of the dependency graph and budget; " + PURE,
    "C25": "TxGraph is a single-threaded in-memory structure with no clock, I/O or peers; an operation history is its only input (no fault or schedule to inject)",
    "C30": "feerate arithmetic; " + PURE,
    "C31": "subsidy schedule is a pure function of height; " + PURE,
    "C40": "coin-selection algorithms are pure functions of the pool and target (their RNG is an argument); " + PURE,
    "C45": "descriptor/address/BIP32 round trips; " + PURE,
    "C46": "signing/satisfaction is a pure function of script, keys, preimages; " + PURE,
    "C47": "PSBT encode/merge/finalise; " + PURE,
    "C48": "serialisation and text encodings; " + PURE,
    "C49": "hash/cipher primitives (backend selection is a configuration, not a schedule); " + PURE,
    "C50": "secp256k1 arithmetic; " + PURE,
    "C51": "probabilistic filters are pure functions of the inserted set; " + PURE,
    "C54": "block-index navigation and chainwork are pure functions of the tree; " + PURE,
    "C59": "SelectNodeToEvict is a pure function of the candidate vector; " + PURE,
    "C61": "containers and the pool allocator: in-memory, single-threaded, no failure path claimed; " + PURE,
}
NOT_BUILT = "simulation designed in DESIGN.md §5 but its check is not built yet, so nothing is claimed"


def main():
    props = [json.loads(l)["id"] for l in open(f"{VERIF}/properties.jsonl")]
    checks = []
    na = []
    for pid in props:
        if pid in CHECKS:
            eng, level, text, note, tech, ref = CHECKS[pid]
            checks.append({
                "property_id": pid,
                "quick_cmd": f"./check {pid} quick",
                "thorough_cmd": f"./check {pid} thorough",
                "evidence_file": f"/verif/evidence/{pid}.json",
                "replay_cmd_template": "./check --replay {path}",
                "engine": eng,
                "level_claimed": {"category": level, "text": text, "design_ref": ref},
                "level_note": note,
                "technique": tech,
            })
        elif pid in NOT_APPLICABLE:
            na.append({"property_id": pid, "reason": NOT_APPLICABLE[pid]})
        else:
            na.append({"property_id": pid, "reason": NOT_BUILT})
    hooks_commits = []
    hf = f"{VERIF}/hooks_commits.txt"
    if os.path.exists(hf):
        hooks_commits = [l.split()[0] for l in open(hf) if l.strip() and not l.startswith("#")]
    engines = {}
    for pid, c in CHECKS.items():
        engines.setdefault(c[0], []).append(pid)
    manifest = {
        "version": 1,
        "setup_cmd": "./check setup",
        "hooks": {
            "guard": "BITCOIN_VERIF",
            "enable": "cmake -S /repo -B /verif/build/hooks -DAPPEND_CPPFLAGS=-DBITCOIN_VERIF (done by ./check setup; every check re-runs ninja there, so edits to /repo's working tree are compiled in)",
            "baseline_off_cmd": "cmake --build /repo/_build -j16 && ctest --test-dir /repo/_build -j8 --timeout 900",
            "source_commits": hooks_commits,
            "add_only": True,
        },
        "engines": [{"name": n, "path": "/verif/src", "serves_properties": sorted(p), "kind_free_text": "deterministic simulation with fault injection (verifsim)"} for n, p in sorted(engines.items())],
        "checks": checks,
        "not_applicable": na,
        "notes": "All checks are `./check <ID> <tier>`: incremental rebuild of /repo's working tree with -DBITCOIN_VERIF, then the seeded simulation batch. Exit 0 held / 1 VIOLATION / 2 simulator or build fault. VERIF_SEED selects the batch; replay files under /verif/replays.",
    }
    out = f"{VERIF}/MANIFEST.json"
    json.dump(manifest, open(out, "w"), indent=1)
    open(out, "a").write("\n")
    try:
        import jsonschema
        jsonschema.validate(manifest, json.load(open("/root/.vp/MANIFEST.schema.json")))
        print(f"MANIFEST.json valid: {len(checks)} checks, {len(na)} not_applicable")
    except ImportError:
        print("jsonschema not available; wrote without validation")


if __name__ == "__main__":
    main()
