#!/usr/bin/env python3
"""Generates the briefs handed to sub-agents that write single engines (kept for the record)."""
import json, re, os, sys

props = {json.loads(l)['id']: json.loads(l) for l in open('/verif/properties.jsonl')}
design = open('/verif/DESIGN.md').read()


def para(pid):
    m = re.search(r'\*\*' + pid + r' — .*?(?=\n\*\*C\d\d — |\n### |\n---)', design, re.S)
    return m.group(0).strip()


TEMPLATE = """You are building ONE engine of a deterministic-simulation-with-fault-injection verification harness ("verifsim") for bitcoin/bitcoin (source in /repo at a pinned commit; do NOT edit anything under /repo). The harness lives in /verif. Read these first, in this order:
  1. /verif/src/ENGINE_GUIDE.md  (the contract, the soundness rules, how to build and run privately)
  2. /verif/src/core/sim.h and /verif/src/core/rng.h  (the API)
  3. /verif/src/engines/c34_txrequest.cpp (worked compsim example), then the 'nodesim' section at the end of ENGINE_GUIDE.md, the headers under /verif/src/nodesim/ and /verif/src/simfs/simfs.h, and the two engines built on them: /verif/src/engines/chain_props.cpp and /verif/src/engines/c16_crash.cpp
  4. /verif/DESIGN.md section 2 (ground rules) — the per-property design paragraph is quoted below.

Your property is {pid}. Its record from /verif/properties.jsonl (fixed; the statement is what your oracle must decide, no more and no less):

{record}

The design paragraph for it (from /verif/DESIGN.md section 5; treat it as the plan, deviate only where the real code forces you to, and say so in your final report):

{para}

Deliverable: TWO things - (1) a reusable helper /verif/src/nodesim/walletsim.h + walletsim.cpp (you own these two new files) and (2) the engine file /verif/src/engines/{fname}. It must register an Engine with prop "{pid}". Additional guidance specific to this engine:
{extra}

Working rules:
- Build ONLY privately: make -C /verif -j6 ENGINES=/verif/src/engines/{fname} OBJ=/verif/build/obj_{low} BIN=/verif/build/verifsim_{low}   (the hook-enabled libraries in /verif/build/hooks are already built; do not rebuild them, do not run ./check, do not run plain `make` in /verif, never run ninja/cmake). Other engineers are building other engines in /verif concurrently: touch no file but yours, do not git commit, do not edit MANIFEST.json, DESIGN.md, Makefile, src/core/*.
- Read the real bitcoin code you drive (headers and the .cpp) before writing the model; the unit tests and fuzz targets under /repo/src/test (e.g. src/test/fuzz/*.cpp) show how to construct and drive the component — you may imitate how they call the API, but the reference model/oracle must be your own independent code written from the property statement and the component's documented contract.
- Soundness first: on the unchanged tree your engine must report zero violations for at least 8 different seeds (VERIF_SEED=1..8, quick tier) and `selftest-determinism {pid} --runs 3000` must report 0 mismatches. If you find a violation on the unchanged tree, work out whether your model/oracle is wrong (fix it) or bitcoin really breaks the property statement (then keep the check as is and report the exact replay file and your analysis).
- Sensitivity: demonstrate that the engine catches at least 5 realistic mutants of the code under test (start with the "Must-catch" list of the design paragraph) using the EXTRA_SRCS mechanism of the guide with a private copy under /tmp/mut_{low}/ (remove it when done). Each mutant must still compile. For every mutant record: the one-line diff, whether quick tier caught it, violation class, minimised op count. If a mutant is missed, improve the workload/oracle (not by over-claiming) and retry.
- Size the run counts so that the quick tier takes about 20-45 s wall on 16 cores (runner forks `chunk` runs per child; use chunk 200-1000 for sub-millisecond runs) and thorough about 10-15 minutes (budgets are enforced by the runner; set quick_budget_s ~50, thorough_budget_s ~900). The machine is shared with other builds right now, so measure with --jobs 4 and extrapolate rather than hogging 16 cores for long.
- Evidence quality: meaningful ctx.probe()/ctx.fault() names (faults counted only when they fired), ctx.fingerprint() of the model state after each op, ctx.nontrivial, ctx.sim_ms where there is a simulated clock, a precise Engine::rule text, expected_probes, real/stub component lists, assumptions.
- Clean up: remove /verif/build/obj_{low}, /verif/build/verifsim_{low}, /tmp/mut_{low} and any replay files you created under /verif/replays when you are done; leave only your source file(s).

Final report (plain text, concise): what the engine simulates (workload ops, fault kinds, schedule space), the oracle clause by clause, run rates, the mutant table (diff, caught?, class, minimised ops), anything about the property statement you could NOT decide (so it can be stated as a limitation), and any suspicious behaviour of the real code you noticed.
"""

EXTRA = {
    'C44': ('c44_wallet_balance.cpp', """- You are building the WALLET FOUNDATION that five more wallet engines (C41 create-transaction, C43 persistence/crash, C62 address uniqueness, C42 encryption, C56 fee bump) will reuse, plus the first engine on it (C44 balances). Design the helper for them too.
- walletsim.h/.cpp (namespace nodesim): `class WalletNode` that attaches real descriptor wallets to a running SimNode: it needs an interfaces::Chain, i.e. interfaces::MakeChain(node::NodeContext&) (src/interfaces/chain.h, src/node/interfaces.cpp). NodeContext holds unique_ptrs (chainman, mempool, validation_signals, args, kernel, ...) while SimNode owns its objects: build a NodeContext inside WalletNode that BORROWS the SimNode's objects (assign the raw pointers into the unique_ptrs and release() them in the destructor before NodeContext dies) and give it whatever else ChainImpl needs (ArgsManager, scheduler only if unavoidable: no real threads; fee_estimator may stay null - check what estimateSmartFee does with null and use explicit feerates in coin control). Wallets: wallet::WalletContext{chain, args}, production SQLite databases via wallet::MakeDatabase / MakeWalletDatabase with DatabaseOptions (require_create, use_unsafe_sync = false so that real fsync/fdatasync traffic exists for the crash engines) in a directory under the SimNode datadir; CWallet::CreateNew(context, name, std::move(database), WALLET_FLAG_DESCRIPTORS, born_encrypted, error, warnings) and CWallet::LoadExisting / the load path used by wallet/load.cpp for reload-after-restart; keypool size reduced (args "-keypool=5..20") so top-ups happen; keys must NOT come from GetStrongRandBytes in a way that breaks determinism: sim::ResetDeterminism already makes bitcoin's RNG deterministic (MakeRandDeterministicDANGEROUS), check that GetStrongRandBytes is covered by it in this code base (src/random.cpp) and otherwise import descriptors with keys derived from the plan seed (see wallet/test/util.cpp CreateDescriptor / importdescriptors code path in wallet/rpc/backup.cpp) instead of SetupDescriptorScriptPubKeyMans. Wallet notifications: the wallet registers with the chain's notification handler (chain.handleNotifications) and receives blockConnected/transactionAddedToMempool through ValidationSignals: with SimNode's ImmediateTaskRunner these arrive synchronously; call SimNode::DrainSignals() anyway. Provide in WalletNode: CreateWallet(name, opts) / LoadWallet(name) / UnloadWallet, NewAddress(type), helpers to build a CRecipient list and call wallet::CreateTransaction (wallet/spend.h) + CommitTransaction, GetBalance (wallet/receive.h), AvailableCoins, and a clean way to stop everything before the SimNode stops. Look at src/wallet/test/util.cpp, wallet_tests.cpp (ListCoinsTest, CreateSyncedWallet), spend_tests.cpp, walletload_tests.cpp, and src/wallet/test/wallet_test_fixture.cpp for working call sequences.
- Engine C44 (prop "C44"): workload = ChainSim/MempoolSim-style histories where some outputs pay wallet scripts: the generator (chaingen.h BuildTx/BuildBlock, MempoolSim::MakeTx/SubmitTx, ChainSim::MineOn won't pay to the wallet by itself - build your own blocks with BuildBlock paying coinbases or tx outputs to wallet addresses (GetScriptForDestination of NewAddress) and register them with ChainSim::AddBlock + Deliver) produces: receives (confirmed and unconfirmed), wallet sends (CreateTransaction+Commit, landing in the node's mempool), external double-spends of wallet sends confirmed on a competing branch (use OP_REORG-like branches that you build), coinbase to the wallet maturing/un-maturing over reorgs, abandon (CWallet::AbandonTransaction), restart with rescan. Oracle: GetBalance (m_mine_trusted / m_mine_untrusted_pending / m_mine_immature) and AvailableCoins equal an independent recomputation from the MODEL's active chain (RefChain UTXO(tip)) + the real mempool for the wallet's script set using the statement's rules (trusted = confirmed, or in-mempool with all inputs from the wallet itself; conflicted by the chain => not counted and its inputs spendable again), checked after every operation once signals are drained.
- quick tier ~100-200 runs at 0.3-1 s each; chunk 1. Determinism matters: wallet code uses GetRand* in coin selection (deterministic under ResetDeterminism) and std::shuffle with FastRandomContext; if you see trace mismatches in selftest-determinism hunt down the source.""")
}

os.makedirs('/verif/build/briefs', exist_ok=True)
for pid, (fname, extra) in EXTRA.items():
    open(f'/verif/build/briefs/{pid}.txt', 'w').write(
        TEMPLATE.format(pid=pid, record=json.dumps(props[pid], indent=1), para=para(pid), fname=fname, low=pid.lower(), extra=extra))
print("wrote", list(EXTRA))
