#!/bin/bash
# Early feedback on a seeded change WITHOUT touching /repo: the .cpp files the patch changes are patched in a scratch copy and
# shadow their archive members in a private harness build (like tools/mutant.sh); patched headers go into a shadow include
# directory in front of /repo/src, and the /repo .cpp files named in $CPPS (those that use the header) are compiled privately too.
# The sanctioned route (git -C /repo apply; ./check <ID> quick; git -C /repo checkout -- .) is run once the tree is quiet.
#   tools/seed_try.sh <name> <patch.diff> <PROP> [verifsim run args...]
#   env: ENGINES (default: that property's engine file(s)), JOBS, CPPS="validation.cpp node/miner.cpp" (repo-relative to src/)
set -u
NAME=$1; PATCH=$2; PROP=$3; shift 3
D=/tmp/seedtry_$NAME
rm -rf $D; mkdir -p $D/tree
FILES=$(git -C /repo apply --numstat $PATCH | awk '{print $3}')
HAVE_HDR=0
for f in $FILES; do
  case $f in
    src/*.cpp) ;;
    src/*.h) HAVE_HDR=1 ;;
    *) echo "SEEDTRY $NAME: patch changes $f: use the /repo route"; rm -rf $D; exit 5;;
  esac
  mkdir -p $D/tree/$(dirname $f); cp /repo/$f $D/tree/$f
done
if [ $HAVE_HDR = 1 ] && [ -z "${CPPS:-}" ]; then echo "SEEDTRY $NAME: patch changes a header: name the /repo sources to recompile in CPPS"; rm -rf $D; exit 5; fi
(cd $D/tree && patch -s -p1 < $PATCH) || { echo "SEEDTRY $NAME: patch failed"; exit 4; }
EXTRA=""; INC=""
[ $HAVE_HDR = 1 ] && INC="-I$D/tree/src"
for f in $FILES; do case $f in *.cpp) EXTRA="$EXTRA $D/tree/$f"; INC="$INC -iquote /repo/$(dirname $f)";; esac; done
for c in ${CPPS:-}; do
  case " $FILES " in *" src/$c "*) ;; *) mkdir -p $D/tree/src/$(dirname $c); cp /repo/src/$c $D/tree/src/$c; EXTRA="$EXTRA $D/tree/src/$c"; INC="$INC -iquote /repo/src/$(dirname $c)";; esac
done
ENG=${ENGINES:-$(grep -l "\"$PROP\"" /verif/src/engines/*.cpp | tr '\n' ' ')}
make -C /verif -j${JOBS:-6} ENGINES="$ENG" OBJ=/verif/build/obj_st_$NAME BIN=/verif/build/verifsim_st_$NAME EXTRA_SRCS="$EXTRA" CPPFLAGS_EXTRA="$INC" > $D/build.log 2>&1 || { echo "SEEDTRY $NAME: build failed"; tail -20 $D/build.log; exit 4; }
mkdir -p $D/out/replays $D/out/evidence; cp /verif/known_findings.txt $D/out/
VERIF_DIR=$D/out /verif/build/verifsim_st_$NAME run $PROP "$@" > $D/run.log 2>&1
RC=$?
grep -E "^VIOLATION|violation class|SIMULATOR|^done:|KNOWN" $D/run.log | head -8
echo "SEEDTRY $NAME prop=$PROP exit=$RC"
rm -rf /verif/build/obj_st_$NAME /verif/build/verifsim_st_$NAME $D/tree
exit $RC
