#!/bin/bash
# Like mutant.sh but for header-only code: a shadow include directory with ONE mutated header is put in front of /repo/src,
# and the listed .cpp files of /repo that include it are compiled privately so that their objects shadow the archive members.
#   tools/mutant_hdr.sh <name> <repo-relative header> '<sed expr>' "<repo-relative cpps that include it>" <PROP> [verifsim args]
set -u
NAME=$1; HDR=$2; SED=$3; CPPS=$4; PROP=$5; shift 5
D=/tmp/mut_$NAME
rm -rf $D; mkdir -p $D/inc/$(dirname $HDR) $D/src
cp /repo/src/$HDR $D/inc/$HDR
sed -i "$SED" $D/inc/$HDR
if cmp -s /repo/src/$HDR $D/inc/$HDR; then echo "MUTANT $NAME: sed expression changed nothing"; rm -rf $D; exit 3; fi
diff /repo/src/$HDR $D/inc/$HDR | head -8
EXTRA=""
for c in $CPPS; do cp /repo/src/$c $D/src/$(basename $c); EXTRA="$EXTRA $D/src/$(basename $c)"; done
ENG=${ENGINES:-$(ls /verif/src/engines/*.cpp | tr '\n' ' ')}
make -C /verif -j${JOBS:-8} ENGINES="$ENG" OBJ=/verif/build/obj_mut_$NAME BIN=/verif/build/verifsim_mut_$NAME EXTRA_SRCS="$EXTRA" CPPFLAGS_EXTRA="-I$D/inc" > $D/build.log 2>&1 || { echo "MUTANT $NAME: build failed"; tail -20 $D/build.log; exit 4; }
mkdir -p $D/out/replays $D/out/evidence; VERIF_DIR=$D/out /verif/build/verifsim_mut_$NAME run $PROP "$@" > $D/run.log 2>&1
RC=$?
grep -E "^VIOLATION|violation class|SIMULATOR|done:" $D/run.log | head -6
echo "MUTANT $NAME prop=$PROP exit=$RC"
rm -rf $D /verif/build/obj_mut_$NAME /verif/build/verifsim_mut_$NAME
exit $RC
