#!/bin/bash
# Main-session verification of one seeded change delivered by a sub-agent (see DESIGN.md §9, "seeded changes"):
#   tools/verify_seed.sh <ID> <deliverable-dir> [jobs]
# Works in the scratch worktree /tmp/seed_<ID> (never in /repo): resets it, builds the unmodified tree, checks that the
# demonstration passes without the change, applies patch.diff, checks that the demonstration now fails and that the
# repository's own test suite (ctest, without the demonstration) still passes with the change. Prints one verdict line.
ID=$1; D=$2; J=${3:-8}
WT=/tmp/seed_$ID
LOG=/tmp/seed_${ID}_verify.log
: > $LOG
export CCACHE_BASEDIR=$WT CCACHE_NOHASHDIR=1
cd $WT || { echo "$ID: no worktree"; exit 2; }
git checkout -q -- . && git clean -qfd -e build >> $LOG 2>&1
[ -f $D/patch.diff ] || { echo "$ID: no patch.diff in $D"; exit 2; }
git apply --check $D/patch.diff >> $LOG 2>&1 || { echo "$ID: patch does not apply at HEAD"; exit 1; }
if git apply --numstat $D/patch.diff | awk '{print $3}' | grep -qE '(^|/)test/|/tests/'; then echo "$ID: patch touches test files"; exit 1; fi
[ -d build ] || cmake -G Ninja -B build -DCMAKE_BUILD_TYPE=Release -DCMAKE_CXX_FLAGS_RELEASE="-O1" -DBUILD_GUI=OFF -DBUILD_BENCH=OFF -DBUILD_FUZZ_BINARY=OFF -DENABLE_IPC=OFF -DBUILD_TESTS=ON -DWITH_ZMQ=OFF -DENABLE_EXTERNAL_SIGNER=OFF -DWITH_CCACHE=ON >> $LOG 2>&1
demo() { # runs the demonstration; the deliverable provides demo/run.sh (exit 0 = demonstration passes) or demo/demo.diff + demo/SUITE
  if [ -x $D/demo/run.sh ]; then (cd $WT && $D/demo/run.sh) >> $LOG 2>&1; return $?; fi
  if [ -f $D/demo/demo.diff ]; then
    git apply $D/demo/demo.diff >> $LOG 2>&1 || return 243
    ninja -C build -j$J test_bitcoin >> $LOG 2>&1 || { git apply -R $D/demo/demo.diff; return 242; }
    suite=$(cat $D/demo/SUITE 2>/dev/null)
    ./build/bin/test_bitcoin --run_test="$suite" >> $LOG 2>&1; rc=$?
    git apply -R $D/demo/demo.diff >> $LOG 2>&1
    return $rc
  fi
  return 241
}
echo "== demo without change" >> $LOG
demo; rc_clean=$?
echo "== apply change" >> $LOG
git apply $D/patch.diff >> $LOG 2>&1
echo "== demo with change" >> $LOG
demo; rc_changed=$?
echo "== unit suite with change (no demo)" >> $LOG
ninja -C build -j$J >> $LOG 2>&1; rc_build=$?
ctest --test-dir build -j$J --timeout 1200 > /tmp/seed_${ID}_ctest.log 2>&1; rc_ctest=$?
tail -5 /tmp/seed_${ID}_ctest.log >> $LOG
git checkout -q -- . ; git clean -qfd -e build >> $LOG 2>&1
verdict=REJECT
[ $rc_clean = 0 ] && [ $rc_changed != 0 ] && [ $rc_changed -lt 241 ] && [ $rc_build = 0 ] && [ $rc_ctest = 0 ] && verdict=KEEP
echo "$ID $verdict demo_clean=$rc_clean demo_changed=$rc_changed build=$rc_build ctest=$rc_ctest ($(grep -E 'tests passed|tests failed' /tmp/seed_${ID}_ctest.log | head -1))"
