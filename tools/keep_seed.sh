#!/bin/bash
# tools/keep_seed.sh <ID> <deliverable dir> <n> "<verdict line of verify_seed.sh>"  -> /verif/seeded/<ID>/<n>/
ID=$1; SRC=$2; N=$3; V=$4
DST=/verif/seeded/$ID/$N
mkdir -p $DST
cp $SRC/patch.diff $DST/; rm -rf $DST/demo; cp -r $SRC/demo $DST/demo
python3 - "$SRC/meta.json" "$DST/meta.json" "$V" <<'PY'
import json,sys
m=json.load(open(sys.argv[1]))
m["verified_by_main_session"]={"result":sys.argv[3],"how":"tools/verify_seed.sh in the scratch worktree: demo/run.sh exit 0 on the unmodified tree, non-zero with patch.diff applied; full build + ctest with the patch (demo not applied)"}
m.setdefault("caught_by",[])
json.dump(m,open(sys.argv[2],"w"),indent=1)
PY
echo kept $DST
