#!/bin/bash
# Runs every check registered in MANIFEST.json (tier $1, default quick) in /verif and prints a one-line verdict each.
# Usage: tools/run_all.sh [quick|thorough] [ID...]
TIER=${1:-quick}; shift || true
cd /verif
IDS="$@"
[ -z "$IDS" ] && IDS=$(python3 -c "import json;print(' '.join(c['property_id'] for c in json.load(open('MANIFEST.json'))['checks']))")
for id in $IDS; do
  s=$(date +%s)
  ./check $id $TIER > build/run_$id.log 2>&1; rc=$?
  e=$(date +%s)
  echo "$id exit=$rc $((e-s))s $(grep -E '^done:' build/run_$id.log | sed 's/done: //' | cut -c1-110) $(grep -cE '^VIOLATION' build/run_$id.log) violations $(grep -c '^KNOWN-FINDING' build/run_$id.log) known"
done
