#!/bin/bash
# The sanctioned route for every kept seeded change: apply it to /repo, run the property's own check, undo it straight afterwards.
#   tools/seeded_run.sh [ID/n ...]      (default: every /verif/seeded/*/*/patch.diff)
# Appends one line per change to /verif/seeded/RESULTS.tsv and records the outcome in the change's meta.json ("caught_by").
cd /verif
LIST="$@"
[ -z "$LIST" ] && LIST=$(ls -d seeded/C*/*/ | sed 's|seeded/||; s|/$||')
git -C /repo diff --quiet || { echo "/repo has uncommitted changes: refusing"; exit 2; }
for it in $LIST; do
  id=${it%%/*}
  d=/verif/seeded/$it
  [ -f $d/patch.diff ] || continue
  git -C /repo apply $d/patch.diff || { echo -e "$it\tAPPLY-FAILED" | tee -a seeded/RESULTS.tsv; continue; }
  mkdir -p /tmp/seeded_run_out/replays /tmp/seeded_run_out/evidence; cp /verif/known_findings.txt /tmp/seeded_run_out/
  s=$(date +%s)
  VERIF_DIR=/tmp/seeded_run_out ./check $id quick > /tmp/seeded_run.log 2>&1; rc=$?
  e=$(date +%s)
  git -C /repo checkout -- .
  cls=$(grep -E "^violation class=" /tmp/seeded_run.log | sed 's/violation class=//; s/ minimised.*//' | sort -u | tr '\n' ';' | cut -c1-200)
  echo -e "$it\texit=$rc\t$((e-s))s\t$cls" | tee -a seeded/RESULTS.tsv
  python3 - "$d/meta.json" "$id" "$rc" "$cls" <<'PY'
import json,sys
p,idd,rc,cls=sys.argv[1:5]
m=json.load(open(p))
m["caught_by"]=[{"check":f"./check {idd} quick","exit":int(rc),"violation_classes":[c for c in cls.split(';') if c],"route":"git -C /repo apply; ./check; git -C /repo checkout -- ."}]
json.dump(m,open(p,"w"),indent=1)
PY
done
./check setup > /dev/null 2>&1
