#!/usr/bin/env python3
"""Briefs for the independent sub-agents that write property-breaking changes ("seeded changes").
They get ONLY the property text and a scratch worktree of /repo; nothing from /verif."""
import json, os, sys

props = {json.loads(l)['id']: json.loads(l) for l in open('/verif/properties.jsonl')}

TEMPLATE = """You are testing how well a piece of software's semantic properties are protected. You work ONLY inside the scratch git worktree {wt} (a checkout of bitcoin/bitcoin, Bitcoin Core, at a pinned commit; C++, CMake). Do not read or write anything under /repo or /verif.

Here is a semantic property that the code base is supposed to satisfy:

  Title: {title}
  Statement: {statement}
  Quantified over: {quant}

Your job: produce a small change to the bitcoin source code (production code under src/, NOT tests) that BREAKS this property while
  (a) still compiling,
  (b) still passing the existing unit test suite (the ctest suite of the repository; see below how to build and run it), and
  (c) needing something specific to manifest: a particular interleaving, a crash or fault at a particular point, a multi-step sequence of operations, an unusual input, or two cooperating code sites that each look fine alone. NOT a change that ordinary use or the first unit test would expose at once, and not a change that merely disables a feature wholesale.
Prefer realistic mistakes a maintainer could make in a refactor (a boundary off by one, a condition moved across a lock or a flush, a missing sync/erase/notification on one path, a cache key missing one component, a forgotten case in a switch).

Also produce a DEMONSTRATION: a unit test (Boost test added under src/test/ or src/wallet/test/) or a small program that FAILS with your change applied and PASSES without it. The demonstration is only evidence that the change really breaks the property; it must not be needed for the breakage.

Build / test instructions (offline machine, no network; the machine is shared, use at most 6 parallel jobs):
  cd {wt}
  export CCACHE_BASEDIR={wt} CCACHE_NOHASHDIR=1
  cmake -G Ninja -B build -DCMAKE_BUILD_TYPE=Release -DCMAKE_CXX_FLAGS_RELEASE="-O1" -DBUILD_GUI=OFF -DBUILD_BENCH=OFF -DBUILD_FUZZ_BINARY=OFF -DENABLE_IPC=OFF -DBUILD_TESTS=ON -DWITH_ZMQ=OFF -DENABLE_EXTERNAL_SIGNER=OFF -DWITH_CCACHE=ON
  ninja -C build -j6 test_bitcoin        (first build takes a long time; be patient, run it in the background and poll)
  ./build/bin/test_bitcoin --run_test=<suite>      (run the suites that touch your change first)
  ctest --test-dir build -j6 --timeout 900          (full suite at the end, WITH your change applied, must pass; secp256k1 tests need `ninja -C build` of all targets - if that is too slow, run at least every test_bitcoin suite via `./build/bin/test_bitcoin` and say so)
Work flow: first build the unmodified tree once (so that later rebuilds are incremental), write the demonstration and see it pass, then make the change, see the demonstration fail, then run the full unit suite with the change (without the demonstration test, or with it excluded) and see it pass.

Deliverables, in the directory {out} (create it):
  - patch.diff        : `git diff` of the production-code change ONLY (no tests), applicable with `git apply` at the worktree's HEAD
  - demo/             : the demonstration: the test source as a separate patch `demo/demo.diff` (and/or program files), a README saying what it prints with/without the change, and an executable `demo/run.sh` that is run from the worktree root with no arguments, applies demo.diff (if any), builds what it needs (`ninja -C build -j6 test_bitcoin`), runs the demonstration, un-applies demo.diff again (also on failure), and exits 0 if and only if the demonstration PASSED (so: exit 0 on the unmodified tree, non-zero with patch.diff applied). run.sh must refer to its own files via "$(dirname "$(readlink -f "$0")")", not via a fixed path.
  - meta.json         : {{"property": "{pid}", "summary": "...one line...", "what_it_needs_to_manifest": "...", "files_changed": [...], "why_existing_tests_pass": "...", "demonstration": "...how it was run, results with and without the change...", "unit_suite_result_with_change": "...command and pass/fail counts..."}}
If you find more than one good candidate you may deliver up to three, as {out}/1/, {out}/2/, {out}/3/ each with the three items. Quality over quantity: one subtle, realistic, well-demonstrated change is worth more than three obvious ones.
Do not `git commit` in the worktree; leave the worktree with your LAST candidate applied or clean - the deliverables directory is what counts. When you are done, report a short summary of each candidate.
"""

os.makedirs('/verif/build/seed_briefs', exist_ok=True)
for pid in sys.argv[1:]:
    p = props[pid]
    wt = f"/tmp/seed_{pid}"
    out = f"/tmp/seed_{pid}_out"
    open(f'/verif/build/seed_briefs/{pid}.txt', 'w').write(TEMPLATE.format(
        wt=wt, out=out, pid=pid, title=p['title'], statement=p['statement'], quant=p['quantifier']['text']))
    print("wrote", pid)
